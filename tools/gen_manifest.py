#!/usr/bin/env python3
"""Generates /verif/MANIFEST.json from the table below (kept in one place so it is always valid)."""
import json, os, subprocess, sys
ROOT = os.path.dirname(os.path.dirname(os.path.abspath(__file__)))

NA = {
 "C02": "pure functions of one input value (parse/format/serde/sign/verify): no schedule, clock, fault or peer for a simulator to control",
 "C10": "pure codec functions (encode/decode of one message); no schedule, time or fault",
 "C11": "pure map from a header string to a protocol version on each side; no schedule, time or fault",
 "C12": "pure function of request headers and query string",
 "C13": "pure function of one header value",
 "C16": "pure function of (batch, n); exercised incidentally inside C17's receive path",
 "C20": "pure configuration validation over a list of bind requests; no schedule, time or fault",
 "C23": "pure function of a path map; its never-empties clause is crossed by C22's histories",
 "C24": "pure function of a path list and the current selection",
 "C27": "pure fold over a sequence of probe reports",
 "C31": "pure encode/decode round trip of endpoint info",
 "C32": "pure signature verification / parsing of one byte string",
}

# id -> (engine, level, technique, level text, level note, design section)
CHECKS = {}
def chk(id, engine, level, technique, text, note):
    CHECKS[id] = dict(engine=engine, level=level, technique=technique, text=text, note=note)

exec(open(os.path.join(ROOT, "tools", "checks_table.py")).read())

def main():
    hooks_commits = []
    hp = os.path.join(ROOT, "tools", "hook_commits.txt")
    if os.path.exists(hp):
        hooks_commits = [l.split()[0] for l in open(hp) if l.strip() and not l.startswith("#")]
    checks = []
    for id in sorted(CHECKS):
        c = CHECKS[id]
        checks.append({
            "property_id": id,
            "quick_cmd": f"./check {id} --tier quick",
            "thorough_cmd": f"./check {id} --tier thorough",
            "evidence_file": f"/verif/evidence/{id}.json",
            "replay_cmd_template": "./check replay --replay {path}",
            "engine": c["engine"],
            "level_claimed": {"category": c["level"], "text": c["text"], "design_ref": f"DESIGN.md §4 {id}"},
            "level_note": c["note"],
            "technique": c["technique"],
        })
    na = [{"property_id": k, "reason": v} for k, v in sorted(NA.items())]
    all_ids = [json.loads(l)["id"] for l in open(os.path.join(ROOT, "properties.jsonl"))]
    for i in all_ids:
        if i not in CHECKS and i not in NA:
            na.append({"property_id": i, "reason": UNCLAIMED.get(i, "not yet covered by a check in this framework (see DESIGN.md)")})
    na.sort(key=lambda x: x["property_id"])
    m = {
        "version": 1,
        "setup_cmd": "cd /verif/sim && CARGO_NET_OFFLINE=true cargo build --release --offline",
        "hooks": {
            "guard": "--cfg iroh_verif",
            "enable": "RUSTFLAGS='--cfg iroh_verif --cfg tokio_unstable' via /verif/sim/.cargo/config.toml; /verif/sim depends on the crates in /repo by path, so every ./check rebuilds from /repo's working tree",
            "baseline_off_cmd": "cd /repo && cargo nextest run --workspace --no-fail-fast --test-threads 8 --offline || cargo test --workspace --no-fail-fast --offline",
            "source_commits": hooks_commits,
            "add_only": True,
        },
        "engines": [
            {"name": "E1", "path": "/verif/sim/src/fw", "serves_properties": [i for i in sorted(CHECKS) if CHECKS[i]["engine"] == "E1"],
             "kind_free_text": "deterministic discrete-event simulation: tokio current_thread runtime with paused (virtual) clock, seeded select order, seeded entropy via getrandom symbol override, hand-written simulated transports/resolver/disk with seeded fault injection; seeded search over cases, minimisation, replay files"},
            {"name": "E2", "path": "/verif/sim/src/fw/e2.rs", "serves_properties": [i for i in sorted(CHECKS) if CHECKS[i]["engine"] == "E2"],
             "kind_free_text": "cooperative thread scheduler: real threads parked and released one at a time at intercepted lock/atomic operations (cfg(iroh_verif) shims in iroh_base::verif), PRNG picks who runs; deadlock detection; schedule is the replay artefact"},
        ],
        "checks": checks,
        "not_applicable": na,
        "notes": "Technique family: deterministic simulation with fault injection. ./check exits 2 (never 1) for harness errors. Known findings: /verif/known-findings.txt.",
    }
    json.dump(m, open(os.path.join(ROOT, "MANIFEST.json"), "w"), indent=1)
    print("checks:", len(checks), "not_applicable:", len(na))

UNCLAIMED = {}
if __name__ == "__main__":
    main()
