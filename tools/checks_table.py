# chk(id, engine, level, technique, level text, level note)
chk("C34", "E1", "exploration",
    "deterministic simulation: seeded search over stagger-delay lists and scripted resolver outcomes on a virtual clock, model-based oracle",
    "Seeded exploration of the real stagger_call/add_jitter/op-timeout code over a scripted resolver on tokio's paused clock; every attempt start time and the returned result are compared with a reference model of the statement. Samples the (delay list x outcome x timing) space, boundary-biased; not exhaustive.",
    "Trusts tokio's paused clock and timer wheel; the resolver is a stub implementing the public Resolver trait; +-1 ms tolerance on the +-20% window.")
