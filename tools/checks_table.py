# chk(id, engine, level, technique, level text, level note)
chk("C34", "E1", "exploration",
    "deterministic simulation: seeded search over stagger-delay lists and scripted resolver outcomes on a virtual clock, model-based oracle",
    "Seeded exploration of the real stagger_call/add_jitter/op-timeout code over a scripted resolver on tokio's paused clock; every attempt start time and the returned result are compared with a reference model of the statement. Samples the (delay list x outcome x timing) space, boundary-biased; not exhaustive.",
    "Trusts tokio's paused clock and timer wheel; the resolver is a stub implementing the public Resolver trait; +-1 ms tolerance on the +-20% window.")
chk("C35", "E1", "exploration",
    "deterministic simulation: scripted resolver outcomes/timeouts/resets on a virtual clock, slow and eager consumers, model-based oracle over the yielded stream",
    "Seeded exploration of the real resolve_host_all stream (and op timeout / reset-restart) over a scripted resolver on tokio's paused clock; yielded multiset, yield times and terminal are compared with a model derived from the script and the observed resolver call log.",
    "Resolver is a stub of the public Resolver trait; with a slow consumer, a lookup answering after its timeout but before the next poll is accepted either way (the timeout is only enforced when polled).")
chk("C14", "E1", "exploration",
    "deterministic simulation: seeded op sequences against PingTracker on a virtual clock, step-by-step comparison with a reference model",
    "Seeded exploration of the real PingTracker on the paused clock: every timeout() completion time and every ping_timeout() value is compared with a small reference model of the statement; includes cancel-safety (waits dropped on budget expiry).",
    "max_timeout < 500 ms is outside the generated space (clamp would panic; statement is silent on inconsistent bounds).")
chk("C29", "E1", "exploration",
    "deterministic simulation: scripted lookup services (decline/delay/error/hang) on a virtual clock, stream-protocol oracle, drop-cancellation fault",
    "Seeded exploration of the real AddressLookupServices::resolve merged stream with 0..4 scripted services; checks the multiset of yielded items/errors, per-service order, the single terminal, nothing after the end, and cancellation on drop.",
    "Lookup services are stubs of the public AddressLookup trait.")
chk("C04", "E1", "exploration",
    "deterministic simulation: real relay registry + per-connection actors over in-memory framed pipes, seeded interleavings of register/send/close/disconnect with back-pressure and write-error faults, history oracle",
    "Seeded exploration of the real Clients registry and client actors through the public embedder API (Clients::register over SimFramed). Every delivered datagram is matched to its send by unique tag and checked for addressee, authenticated sender id, contents, ECN, segment size, at-most-once, not-on-definitely-inactive-connection and per-pair order.",
    "Enters below tokio-websockets (BytesStreamSink seam). Drops are allowed by the statement and not counted. 'Active at accept time' is checked soundly via definitely-alive intervals, not exactly.")
chk("C05", "E1", "exploration",
    "deterministic simulation: adversarial frame shapes from an attacker connection against victim/bystander connections on the real relay registry, liveness probe after the attack",
    "Seeded exploration with a hand-written adversarial encoder: every frame shape the server decoder accepts (lengths 0..limit+-1, all type bytes, segment sizes 0/1/65535, bad keys) sent to connected/unconnected ids while victim and bystander exchange traffic; oracle: victim/bystander connections are never ended by the relay and still exchange datagrams and pings afterwards.",
    "Enters below tokio-websockets; attacker frames are whole messages (fragmentation is not modelled at this seam).")
chk("C06", "E1", "exploration",
    "deterministic simulation: real relay registry vs exact sequential registry model in settled ('calm') runs, interval-based safety oracle in racing runs, final per-id probe",
    "Seeded exploration of register/close/error/disconnect/send histories over up to 4 ids with duplicate connections. Calm runs compare every health/peer-gone notice count and disconnect() return value with an exact reference model after each op; racing runs check each notice against definitely-alive intervals; every run ends with a probe per id that must arrive exactly on the newest open connection.",
    "Notices dropped because a (tiny) queue is full are only possible in racing runs, where only safety (no spurious notice) is asserted.")
chk("C33", "E2", "exploration",
    "deterministic simulation: cooperative thread scheduler with switch points at every atomic load/CAS, scripted wall clock (stuck, backwards, jumps), spurious CAS failures, happens-before oracle",
    "Seeded exploration of 2..4 threads calling the real Timestamp::now concurrently under a scheduler that owns every interleaving of the atomic operations, with adversarial clock readings; oracle: all values pairwise distinct and ordered consistently with return-before-invoke.",
    "Sequentially consistent executions only (no relaxed-memory reordering); clock near u64::MAX not generated; runs are serial because LAST_TIMESTAMP is process-global.")
chk("C43", "E2", "exploration",
    "deterministic simulation: op sequences over aliased RelayMap handles under the cooperative scheduler with wait-for deadlock detection, BTreeMap reference model",
    "Seeded exploration of insert/remove/extend/with_auth_token/==/get/len sequences over a pool of maps containing clones that share storage; each result and the full contents of every map are compared with a BTreeMap model per alias class after every step; a lock that can never be acquired is reported by the scheduler as a deadlock.",
    "Single caller thread; lock interception via the cfg(iroh_verif) RwLock shim wrapping std::sync::RwLock.")
chk("C26", "E2", "exploration",
    "deterministic simulation: RelayActor and ActiveRelayActor caller threads on HomeRelayWatch under the cooperative scheduler, switch point between the read and the write of set_status",
    "Seeded exploration of all interleavings (at lock operations and at the named point inside set_status) of home-relay choices with status updates from current and demoted relay actors; oracle: after every RelayActor step and at the end the advertised URL is the most recently chosen one.",
    "Callers are threads issuing the same calls the two actors make; Watchable's internal lock is not intercepted.")
chk("C30", "E2", "exploration",
    "deterministic simulation: concurrent publish/publish/add threads on AddressLookupServices under the cooperative scheduler with switch points at every registry lock op and inside service callbacks",
    "Seeded exploration of interleavings of 1..2 publishers and 0..2 adders; oracle: after all threads finish, every service (pre-registered or added concurrently) was last given exactly what the registry hands to a freshly added probe service, with the address filter applied; deadlocks are detected by the scheduler.",
    "Services are recording stubs; 'latest' is defined by the registry's own last_data.")
chk("C18", "E2", "exploration",
    "deterministic simulation: concurrent get/lookup threads on the three AddrMaps under the cooperative scheduler, host-bit entropy shrunk so the uniqueness loop iterates, bijection oracle over the recorded history",
    "Seeded exploration of 2..4 threads x <=4 ops with collisions forced by a 2..3 bit host space; oracle over the invoke/return history: each key's address never changes, no address is shared, reverse lookup returns the owning key and never misses an address handed out before it began, every address classifies as its own kind.",
    "No full linearizability search: get/lookup each hold the lock for their whole body, so the history invariants above are the linearizability conditions for this API.")
chk("C03", "E1", "exploration",
    "deterministic simulation: real relay handshake server (and honest client) over an in-memory duplex pipe with scriptable TLS exporter; grammar-driven adversarial client with captured transcripts; stream-cut faults",
    "Seeded exploration of handshake sessions: honest clients (real clientside) under every exporter agreement/disagreement and allow/deny policy must always authenticate with the right mechanism and see denials; adversarial clients (8 header x 11 reply shapes incl. replayed victim transcripts and wrong-key signatures) must never be authenticated as the victim; stream cuts at every frame boundary must not hang or admit.",
    "TLS exporter modelled as a per-session keyed PRF; Ed25519 trusted; the adversary only replays or signs with its own keys.")
chk("C09", "E1", "exploration",
    "deterministic simulation: real RateLimited reader over a scripted byte source on a virtual clock with live reconfiguration, plus the public Bucket with extreme parameters, both against an i128 reference token-bucket model",
    "Seeded exploration: (a) every read of the real rate-limited reader must complete exactly when the model says tokens and data are available (never earlier, never later), cumulative bytes stay within burst + accrued refill + one chunk, no read stalls; (b) Bucket::consume's verdict and deadline equal the model's for parameters up to i64::MAX, byte counts up to u64::MAX and idle gaps beyond 2^32 ms; arithmetic panics are caught (overflow checks on).",
    "Live config changes are issued between reads. Refill periods >= 2^32 ms not generated.")
chk("C07", "E1", "fault_enumeration",
    "deterministic simulation with exhaustive single-fault enumeration: every server-side I/O operation of the real accept path x {error, EOF, stall} and every cancellation point of the accept future, per seeded script",
    "Each seeded script of 1..3 connection attempts through the real Inner::accept (rate limiter, tokio-websockets, handshake, authorize_with, register, actor) is run fault-free to count server-side I/O operations and accept polls, then re-executed once per (attempt, op index, fault kind) and per cancellation point. Oracle over the AccessControl log: admitted => exactly one on_disconnect with the same id, never before on_connect returned, never twice; denied => none; connection ids never reused. Exhaustive in the fault dimension for each script, sampled in the script dimension.",
    "Entered after the HTTP upgrade (hyper bypassed). Stalls are ended by dropping the accept future after 20 virtual s, as the HTTP layer's establish timeout does.")
chk("C08", "E1", "exploration",
    "deterministic simulation: revoker task racing the real accept path (window between AccessControl admission and registry insertion widened by would-block I/O, fragmentation and a seeded schedule point before register)",
    "Seeded exploration of a revocation (Clients::disconnect by connection id or endpoint id) issued k yields after on_connect returned Allow, or after accept() returned; oracle: within 2 virtual s the revoked connection has been reported disconnected and its client stream has ended.",
    "Two known findings (revocation between admission and registration, by connection id and by endpoint id) are listed in known-findings.txt and reported as KNOWN-FINDING; any other class is a VIOLATION.")
chk("C15", "E1", "exploration",
    "deterministic simulation: real dial_happy_eyeballs over a scripted resolver and a scripted TCP connector on a virtual clock, oracle over the attempt log",
    "Seeded exploration of answer orders/timings of the two lookups and of per-address connect outcomes (succeed, fail fast, fail slow, hang) around the 50 ms resolution delay, 250 ms attempt delay, 1.5 s dial timeout and 3 s DNS timeout; oracle: returned stream is the first successful attempt, Err only after resolution finished and every resolved address failed, first attempt prefers the preferred family within the resolution delay, later attempts alternate families while both have untried addresses.",
    "TcpStream::connect is replaced by a scripted connector (cfg seam); a loopback socket serves as identity token for a successful attempt.")
chk("C17", "E1", "exploration",
    "deterministic simulation: real RelayTransport::poll_recv fed through its real queue, waker-driven noq-like poller, exact expected-delivery oracle and lost-wake-up / busy-loop detection",
    "Seeded exploration of batches (contents 1..65535 bytes, any segment size incl. larger than the buffer and non-dividing) against receive buffers of 1200..94208 bytes and 1..8 slots, with a poller that re-polls only when its waker fired; oracle: the datagrams handed to QUIC are exactly those that fit, in arrival order, each once, never empty or zero-stride; when the poller is parked nothing deliverable remains queued; poll count bounded.",
    "The queue is fed by the harness instead of the ActiveRelayActor (same channel, same item type).")
chk("C28", "E1", "exploration",
    "deterministic simulation: report histories on a virtual clock (gaps around the five-minute window, several probe kinds per relay, latencies around the two-thirds threshold) against a reference model of the statement",
    "Seeded exploration of 1..8-report histories through the real add_report_history_and_set_preferred_relay on the paused clock; per report the chosen relay must be one measured in that report, be best over the last five minutes, and may differ from the previous choice only if at most two thirds of the previous relay's lowest latency in the current report (ties and exact-threshold rounding accepted either way).",
    "Reports are constructed by the harness (probes are not run).")
chk("C36", "E1", "exploration",
    "deterministic simulation: in-process pkarr DNS server (real store actor, redb over SimDisk, real HTTP and DNS handlers) with hand-built adversarial packets; marker-based provenance oracle over every answer",
    "Seeded exploration of publishes over 3 keys (records inside/outside the signer's zone, SOA/NS, path key != signer, bad signature, truncated body) with swarm-randomised batch size, batch time and cache capacity; after every publish all keys x names x types are queried over DNS and pkarr GET: every marked answer record must come from the packet currently stored for the queried key, under its zone, with an allowed type; a rejected publish leaves all answers unchanged.",
    "Sockets are bypassed (handlers are called in process); store threads run as local tasks of the simulated runtime.")
chk("C37", "E1", "exploration",
    "deterministic simulation: in-process pkarr DNS server vs a sequential max-by-(timestamp,payload) model, equal timestamps forced",
    "Seeded exploration of publish orders with colliding timestamps; after every publish the store's own update report and all served packets/answers are compared with the reference model.",
    "Update reports are observed at the store's upsert acknowledgement (hook event), since the HTTP handler answers 204 either way.")
chk("C38", "E1", "exploration",
    "deterministic simulation: publisher task racing resolver task on the in-process server, seeded yields at the two in-tree schedule points (after the store read in resolve, after the upsert acknowledgement in insert), real-time-order oracle",
    "Seeded exploration of interleavings of lookups (DNS and pkarr GET) with acknowledged publishes for one key; oracle: a lookup invoked after publish P was acknowledged never reflects a packet older than P, including a final lookup after the system settled.",
    "Single-threaded interleavings at await points plus the two named schedule points.")
chk("C39", "E1", "fault_enumeration",
    "deterministic simulation with exhaustive crash-point enumeration: every prefix of the logged disk writes/syncs of a publish workload is turned into a crash image (unsynced writes kept/dropped/torn by PRNG) and reopened through redb recovery; plus eviction on virtual + simulated wall clock with clock steps",
    "Per seeded run the live store (real actor, real redb over SimDisk) logs every disk operation; afterwards a crash is simulated after EVERY prefix of the log and both tables of the recovered database are checked: every stored packet is byte-identical to a published one, at least as recent as the newest whose batch commit preceded the crash, and the expiry index equals {(timestamp, key)} of the stored packets. Eviction runs check every removal against the cut-off at removal time and that expired packets are gone after a settle. Exhaustive over crash points per run; runs sampled.",
    "Non-lying disk (sync persists). Torn writes at 512-byte sector granularity. The store's OS threads are replaced by local tasks (wiring of open() duplicated in verif_open).")
chk("C21", "E1", "exploration",
    "deterministic simulation: real RemoteMap + RemoteStateActors on a virtual clock with advances landing around the 60 s idle expiry, emulated cleanup branch, scripted lookup services; event-log oracle (start/stop/handle hooks)",
    "Seeded exploration of resolve requests for two remotes interleaved with idle expiry, actor shutdown, leftover-message hand-off, cleanup and restart; oracle: every request's reply channel is answered (never dropped), each request is handled exactly once and in issue order per remote, and at most one actor instance per remote is live at any point of the event log.",
    "Connection registration (AddConnection) needs a live QUIC connection and is only reached by the endpoint-level checks.")
chk("C22", "E1", "exploration",
    "deterministic simulation: same harness as C21; per actor instance the oracle derives when a path became known and when lookups finished and checks each answer's kind and virtual-time instant",
    "Seeded exploration with lookup services that decline, succeed (with/without addresses, wrong endpoint), fail or are slow; oracle: Ok only when and as soon as a path is known (immediately if already known), Err only after a lookup finished with no path known, never Err while a path is known or a lookup is still running.",
    "The path-set-never-empties clause under pruning is a pure-function property (C23, n/a) and not re-checked here.")
chk("C40", "E1", "exploration",
    "deterministic simulation: real iroh Endpoints (real noq QUIC, rustls, socket actor) and a real Router connected through a seeded in-process datagram network (SimNet: loss, duplication, reordering, delay) behind the custom-transport seam on a virtual clock; tagged-connection oracle over handler invocation and filter decision logs",
    "Seeded exploration of registered protocol sets, dials from two clients offering one to three protocols (registered, unregistered, several at once) and per-incoming filter verdict scripts (accept/reject/ignore/retry-once/retry-always) under network faults; oracle: every handler invocation's negotiated protocol is the handler's own, every established connection reaches exactly one handler exactly once, nothing offering only unregistered protocols is established or handled, no more handler invocations than accepting filter verdicts (a retried connection only counts when the filter accepted its validated retry), and without faults every dial of a registered protocol succeeds.",
    "ring's TLS randomness is not seeded (message bytes differ between runs, control flow and sizes do not). netwatch interface monitoring is real OS interaction that the workload does not depend on.")
chk("C41", "E1", "exploration",
    "deterministic simulation: real Router + Endpoint over SimNet on a virtual clock; concurrent Router::shutdown callers on clones at seeded virtual instants (incl. identical instants) against slow handler shutdowns and an endpoint closing on its own; state sampled at each return",
    "Seeded exploration of 1..4 shutdown callers, 1..3 handlers whose shutdown takes 0..3 s of virtual time, optional live connection and optional independent Endpoint::close; oracle at every return of Router::shutdown: every handler's shutdown has completed and the endpoint is closed.",
    "When the harness itself calls Endpoint::close concurrently, the Router's own Endpoint::close returns at once (close already in progress): in exactly that case the oracle requires only that closing has begun (Endpoint::closed() resolves), otherwise Endpoint::is_closed().")
chk("C42", "E1", "exploration",
    "deterministic simulation: two real iroh Endpoints over SimNet (loss, duplication, reordering, delay) on a virtual clock with scripted hook lists on both sides; per-dial protocol names attribute every hook call; packet log of the network is the no-handshake oracle",
    "Seeded exploration of hook lists (0..3 per side, per-call accept/reject scripts with close codes) and dials (normal, to one's own id, empty protocol name); oracle per dial: hooks of one kind are consulted in list order, each once, stopping at the first reject; a before_connect reject means not established, zero packets sent by the dialer and no after_handshake call; a side holds an established connection only if all its hooks accepted; a listener-side after_handshake reject is observed by the dialer as an application close with exactly the hook's code; all-accepting lists establish (no loss); self-dial and empty protocol name always fail.",
    "ring's TLS randomness is not seeded. The close-code and must-establish clauses are only asserted in runs without packet loss.")
chk("C01", "E1", "exploration",
    "deterministic simulation with an active adversary: real iroh Endpoints (real noq, real rustls with iroh's raw-public-key verifiers, resolver and name encoding) on the seeded SimNet; impostor iroh endpoints behind hijacked / competing addresses, and a bare noq::Endpoint on the same network whose hand-written rustls resolver, signer and verifiers forge the identity; every forgery has an honest control that really holds the key",
    "Seeded exploration of (network faults x scenario): the victim dials id K and K's address leads to K's holder, to an endpoint holding another key, to both, or to a raw QUIC server presenting another key's raw public key, K's public key signed by another key, garbage signatures (0..128 bytes), K's key plus an extra chain element (either order), an X.509-typed certificate or one of five tampered SubjectPublicKeyInfo encodings around K's key bytes; symmetrically a raw QUIC client with the same forgeries (or no certificate) dials an iroh endpoint. Oracle: connect(K) completes only against a peer holding K's secret key; every established connection's remote_id, on both sides, is a key the other side really holds; the honest controls do connect.",
    "The adversary is limited to what a rustls/noq peer with custom resolver/signer/verifier can emit. The TLS-name encode/decode clause is a pure function and only exercised incidentally (each dial encodes, the verifier decodes). ring's TLS randomness is not seeded.")
chk("C25", "E1", "exploration",
    "deterministic simulation: real iroh Endpoint and socket actor on a virtual clock with the probing replaced by scripted virtual-time durations (cfg seam, reporter lock held as in the real run); re-probe requests from Endpoint::network_change, relay-map edits and the real periodic timer; a schedule point between the run task's done signal and its end supplies the multi-threaded interleavings; oracle over the start/finish/request event log",
    "Seeded exploration of request instants clustered inside runs and at their exact end, probe durations from 0 ms to beyond the 10 s report timeout, and 0..5 yields of the finishing run task after its done signal; oracle: report runs never overlap (start/finish alternate) and every update requested while a report was running is started before virtual time moves past the instant that run released the reporter.",
    "net_report::Client::get_report itself is stubbed (scripted duration, default report). Thread interleavings are represented by yields at the named schedule point on a single-threaded executor.")
