#!/usr/bin/env python3-vt
import json, jsonschema, glob, sys
ok = True
m = json.load(open('/verif/MANIFEST.json'))
jsonschema.validate(m, json.load(open('/root/.vp/MANIFEST.schema.json')))
es = json.load(open('/root/.vp/EVIDENCE.schema.json'))
for c in m['checks']:
    p = c['evidence_file']
    try:
        e = json.load(open(p))
        jsonschema.validate(e, es)
        assert e['level'] == c['level_claimed']['category'], "level mismatch"
    except Exception as ex:
        ok = False
        print("BAD", p, str(ex)[:200])
ids = {json.loads(l)['id'] for l in open('/verif/properties.jsonl')}
claimed = {c['property_id'] for c in m['checks']}
na = {n['property_id'] for n in m['not_applicable']}
assert claimed | na == ids and not (claimed & na), (ids - claimed - na, claimed & na)
print("manifest valid; checks", len(claimed), "n/a", len(na), "evidence ok" if ok else "EVIDENCE PROBLEMS")
sys.exit(0 if ok else 1)
