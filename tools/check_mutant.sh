#!/bin/bash
# check_mutant.sh <property ID> <patch file> [extra args]
# Applies the patch to /repo, builds verif-sim into a scratch target dir (so a batch running from
# /verif/target is not disturbed), runs the property's quick check without writing evidence, reverts.
ID=$1; PATCH=$2; shift 2
export CARGO_TARGET_DIR=/tmp/verif-target-mut
git -C /repo apply "$PATCH" || exit 2
( cd /verif/sim && cargo build --release --offline > /tmp/verif-target-mut.build.log 2>&1 ) || { git -C /repo checkout -- .; echo "build failed"; exit 2; }
/tmp/verif-target-mut/release/verif-sim "$ID" --no-evidence "$@" 2>&1 | grep -E "VIOLATION|evaluations|HARNESS|KNOWN"
git -C /repo checkout -- .
