#!/bin/bash
# confirm_mutant.sh <ID> <worktree> <demo-test-filter> <cargo test args for the crate suite...>
# Confirms in a scratch worktree: (1) demo fails with the change, (2) demo passes without it,
# (3) the crate's existing tests pass with the change. Writes /tmp/mut/<ID>/confirm.log.
ID=$1; WT=$2; FILTER=$3; shift 3
LOG=/tmp/mut/$ID/confirm.log
cd "$WT" || exit 2
git checkout -q -- . && git clean -fdq -e target
{
echo "== with change + demo: expect FAIL"
git apply /tmp/mut/$ID/patch.diff && git apply /tmp/mut/$ID/demo.diff
cargo test --offline "$@" -- "$FILTER" 2>&1 | tail -15
echo "demo_with_change_exit=${PIPESTATUS[0]}"
git checkout -q -- . && git clean -fdq -e target
echo "== demo only: expect PASS"
git apply /tmp/mut/$ID/demo.diff
cargo test --offline "$@" -- "$FILTER" 2>&1 | tail -8
echo "demo_without_change_exit=${PIPESTATUS[0]}"
git checkout -q -- . && git clean -fdq -e target
echo "== change only, existing suite: expect PASS"
git apply /tmp/mut/$ID/patch.diff
cargo test --offline "$@" 2>&1 | grep -E "^test result|FAILED|failed" | tail -20
echo "suite_with_change_exit=${PIPESTATUS[0]}"
git checkout -q -- . && git clean -fdq -e target
} > "$LOG" 2>&1
grep -E "_exit=" "$LOG"
