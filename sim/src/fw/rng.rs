//! Seeded PRNG used for every choice the simulator makes (xoshiro256** seeded via splitmix64).
//!
//! Own implementation, zero dependencies, so that the stream for a given seed can never change
//! underneath recorded replay files because a crate was bumped.

#[derive(Clone, Debug)]
pub struct Rng {
    s: [u64; 4],
}

pub fn splitmix64(x: &mut u64) -> u64 {
    *x = x.wrapping_add(0x9E37_79B9_7F4A_7C15);
    let mut z = *x;
    z = (z ^ (z >> 30)).wrapping_mul(0xBF58_476D_1CE4_E5B9);
    z = (z ^ (z >> 27)).wrapping_mul(0x94D0_49BB_1331_11EB);
    z ^ (z >> 31)
}

/// Stable 64-bit mix of several integers (used to derive run seeds and sub-stream seeds).
pub fn mix(parts: &[u64]) -> u64 {
    let mut h: u64 = 0x243F_6A88_85A3_08D3;
    for p in parts {
        h ^= *p;
        let mut x = h;
        h = splitmix64(&mut x);
    }
    h
}

/// FNV-1a over bytes, for stable string hashing (property ids, site names).
pub fn hash_str(s: &str) -> u64 {
    let mut h: u64 = 0xcbf2_9ce4_8422_2325;
    for b in s.as_bytes() {
        h ^= *b as u64;
        h = h.wrapping_mul(0x0000_0100_0000_01B3);
    }
    h
}

impl Rng {
    pub fn new(seed: u64) -> Self {
        let mut x = seed;
        let s = [
            splitmix64(&mut x),
            splitmix64(&mut x),
            splitmix64(&mut x),
            splitmix64(&mut x),
        ];
        Rng { s }
    }

    /// Independent sub-stream: deleting a step during minimisation does not shift other streams.
    pub fn fork(&self, label: &str, idx: u64) -> Rng {
        Rng::new(mix(&[self.s[0], self.s[1], hash_str(label), idx]))
    }

    pub fn next_u64(&mut self) -> u64 {
        let result = self.s[1].wrapping_mul(5).rotate_left(7).wrapping_mul(9);
        let t = self.s[1] << 17;
        self.s[2] ^= self.s[0];
        self.s[3] ^= self.s[1];
        self.s[1] ^= self.s[2];
        self.s[0] ^= self.s[3];
        self.s[2] ^= t;
        self.s[3] = self.s[3].rotate_left(45);
        result
    }

    pub fn next_u32(&mut self) -> u32 {
        (self.next_u64() >> 32) as u32
    }

    /// Uniform in [0, n) (n > 0).
    pub fn below(&mut self, n: u64) -> u64 {
        assert!(n > 0);
        // multiply-shift; bias is irrelevant for exploration
        ((self.next_u64() as u128 * n as u128) >> 64) as u64
    }

    pub fn usize_below(&mut self, n: usize) -> usize {
        self.below(n as u64) as usize
    }

    /// Uniform in [lo, hi] inclusive.
    pub fn range(&mut self, lo: u64, hi: u64) -> u64 {
        assert!(lo <= hi);
        if lo == 0 && hi == u64::MAX {
            return self.next_u64();
        }
        lo + self.below(hi - lo + 1)
    }

    pub fn chance(&mut self, num: u64, den: u64) -> bool {
        self.below(den) < num
    }

    pub fn coin(&mut self) -> bool {
        self.next_u64() & 1 == 1
    }

    pub fn pick<'a, T>(&mut self, xs: &'a [T]) -> &'a T {
        &xs[self.usize_below(xs.len())]
    }

    pub fn fill(&mut self, buf: &mut [u8]) {
        for chunk in buf.chunks_mut(8) {
            let v = self.next_u64().to_le_bytes();
            chunk.copy_from_slice(&v[..chunk.len()]);
        }
    }

    pub fn bytes(&mut self, n: usize) -> Vec<u8> {
        let mut v = vec![0u8; n];
        self.fill(&mut v);
        v
    }

    pub fn shuffle<T>(&mut self, xs: &mut [T]) {
        for i in (1..xs.len()).rev() {
            let j = self.usize_below(i + 1);
            xs.swap(i, j);
        }
    }

    /// Value biased towards boundaries: picks from `edges` half the time, else uniform in [lo,hi].
    pub fn edgy(&mut self, lo: u64, hi: u64, edges: &[u64]) -> u64 {
        if !edges.is_empty() && self.coin() {
            let e = *self.pick(edges);
            e.clamp(lo, hi)
        } else {
            self.range(lo, hi)
        }
    }
}
