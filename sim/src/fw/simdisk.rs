//! `SimDisk`: a `redb::StorageBackend` with a volatile overlay. Writes land in the current image;
//! `sync_data` makes everything written so far durable. Every mutating call is logged, so crash
//! images for ANY prefix of the log can be reconstructed afterwards: durable image at that point
//! plus a PRNG-chosen subset of the not-yet-synced writes, each possibly torn at 512-byte sectors.
//! Faults: EIO on the k-th write/sync, ENOSPC from `set_len`.

use std::{
    io,
    sync::{Arc, Mutex},
};

use super::Rng;

#[derive(Debug, Clone)]
pub enum DiskOp {
    Write { off: u64, data: Vec<u8> },
    SetLen(u64),
    Sync,
}

#[derive(Debug, Clone, Copy, PartialEq, Eq)]
pub enum DiskFault {
    /// the op fails with EIO (and nothing is applied)
    Eio,
    /// set_len fails with ENOSPC
    Enospc,
}

#[derive(Debug, Default)]
pub struct DiskState {
    pub image: Vec<u8>,
    pub log: Vec<DiskOp>,
    pub reads: u64,
    /// fail the op with this log index (counted over mutating ops incl. failed ones)
    pub fault_at: Option<(u64, DiskFault)>,
    pub attempted: u64,
    pub fault_fired: bool,
    pub closed: bool,
}

#[derive(Debug, Clone, Default)]
pub struct SimDisk(pub Arc<Mutex<DiskState>>);

impl SimDisk {
    pub fn new() -> Self {
        SimDisk::default()
    }

    pub fn from_image(image: Vec<u8>) -> Self {
        let d = SimDisk::default();
        d.0.lock().unwrap().image = image;
        d
    }

    pub fn log_len(&self) -> usize {
        self.0.lock().unwrap().log.len()
    }

    pub fn log(&self) -> Vec<DiskOp> {
        self.0.lock().unwrap().log.clone()
    }

    fn gate(&self, g: &mut DiskState, is_set_len: bool) -> io::Result<()> {
        let idx = g.attempted;
        g.attempted += 1;
        if let Some((k, f)) = g.fault_at {
            if k == idx {
                match f {
                    DiskFault::Eio => {
                        g.fault_fired = true;
                        return Err(io::Error::other("sim: EIO"));
                    }
                    DiskFault::Enospc if is_set_len => {
                        g.fault_fired = true;
                        return Err(io::Error::new(io::ErrorKind::StorageFull, "sim: ENOSPC"));
                    }
                    _ => {}
                }
            }
        }
        let _ = self;
        Ok(())
    }
}

impl redb::StorageBackend for SimDisk {
    fn len(&self) -> Result<u64, io::Error> {
        Ok(self.0.lock().unwrap().image.len() as u64)
    }

    fn read(&self, offset: u64, out: &mut [u8]) -> Result<(), io::Error> {
        let mut g = self.0.lock().unwrap();
        g.reads += 1;
        let off = offset as usize;
        if off + out.len() > g.image.len() {
            return Err(io::Error::new(io::ErrorKind::UnexpectedEof, "sim: read past end"));
        }
        out.copy_from_slice(&g.image[off..off + out.len()]);
        Ok(())
    }

    fn set_len(&self, len: u64) -> Result<(), io::Error> {
        let mut g = self.0.lock().unwrap();
        self.gate(&mut g, true)?;
        g.image.resize(len as usize, 0);
        g.log.push(DiskOp::SetLen(len));
        Ok(())
    }

    fn sync_data(&self) -> Result<(), io::Error> {
        let mut g = self.0.lock().unwrap();
        self.gate(&mut g, false)?;
        g.log.push(DiskOp::Sync);
        Ok(())
    }

    fn write(&self, offset: u64, data: &[u8]) -> Result<(), io::Error> {
        let mut g = self.0.lock().unwrap();
        self.gate(&mut g, false)?;
        let off = offset as usize;
        if off + data.len() > g.image.len() {
            return Err(io::Error::new(io::ErrorKind::UnexpectedEof, "sim: write past end"));
        }
        g.image[off..off + data.len()].copy_from_slice(data);
        g.log.push(DiskOp::Write { off: offset, data: data.to_vec() });
        Ok(())
    }

    fn close(&self) -> Result<(), io::Error> {
        self.0.lock().unwrap().closed = true;
        Ok(())
    }
}

/// Reconstructs the disk image after a crash that happens once `prefix` logged ops have been
/// issued: everything up to the last `Sync` within the prefix is durable; of the later writes a
/// PRNG-chosen subset reaches the platter, each possibly torn at 512-byte sector granularity.
/// Returns (image, number of unsynced writes, number persisted, number torn).
pub fn crash_image(log: &[DiskOp], prefix: usize, rng: &mut Rng) -> (Vec<u8>, usize, usize, usize) {
    let ops = &log[..prefix.min(log.len())];
    let last_sync = ops.iter().rposition(|o| matches!(o, DiskOp::Sync)).map(|i| i + 1).unwrap_or(0);
    let mut image: Vec<u8> = vec![];
    let apply = |image: &mut Vec<u8>, op: &DiskOp| match op {
        DiskOp::Write { off, data } => {
            let off = *off as usize;
            if off + data.len() <= image.len() {
                image[off..off + data.len()].copy_from_slice(data);
            }
        }
        DiskOp::SetLen(l) => image.resize(*l as usize, 0),
        DiskOp::Sync => {}
    };
    for op in &ops[..last_sync] {
        apply(&mut image, op);
    }
    let unsynced = &ops[last_sync..];
    let mut persisted = 0;
    let mut torn = 0;
    let mode = rng.below(4); // 0 none, 1 all, 2/3 random subset
    for op in unsynced {
        match op {
            DiskOp::SetLen(_) => {
                // file length changes are metadata: persisted or not as a whole
                if mode == 1 || (mode >= 2 && rng.coin()) {
                    apply(&mut image, op);
                }
            }
            DiskOp::Write { off, data } => {
                let keep = match mode {
                    0 => false,
                    1 => true,
                    _ => rng.coin(),
                };
                if !keep {
                    continue;
                }
                persisted += 1;
                if mode >= 2 && data.len() > 512 && rng.chance(1, 3) {
                    // torn write: only a prefix or suffix of whole sectors made it
                    let sectors = data.len().div_ceil(512);
                    let cut = rng.range(1, sectors as u64 - 1) as usize * 512;
                    torn += 1;
                    let part = if rng.coin() {
                        DiskOp::Write { off: *off, data: data[..cut].to_vec() }
                    } else {
                        DiskOp::Write { off: *off + cut as u64, data: data[cut..].to_vec() }
                    };
                    apply(&mut image, &part);
                } else {
                    apply(&mut image, op);
                }
            }
            DiskOp::Sync => {}
        }
    }
    let n_unsynced = unsynced.iter().filter(|o| matches!(o, DiskOp::Write { .. })).count();
    (image, n_unsynced, persisted, torn)
}
