//! `SimNet`: datagram network behind iroh's public custom-transport traits. Every endpoint binds
//! one simulated interface (a "slot"); addresses are independent of endpoint ids so that address
//! hijacks can be staged. Faults (seeded per network): drop, duplicate, reorder, delay,
//! per-direction partition. Every packet is logged with its fate.

use std::{
    collections::{BTreeMap, BTreeSet, VecDeque},
    io,
    num::NonZeroUsize,
    sync::{Arc, Mutex},
    task::{Context, Poll, Waker},
    time::Duration,
};

use bytes::Bytes;
use iroh::{
    address_lookup::{AddressLookup, Error as LookupError, Item},
    endpoint::transports::{CustomEndpoint, CustomSender, CustomTransport, RecvInfo, Transmit},
    endpoint_info::{EndpointData, EndpointInfo},
};
use iroh_base::{CustomAddr, EndpointId, TransportAddr};
use n0_future::boxed::BoxStream;

use super::Rng;

pub const SIM_TRANSPORT_ID: u64 = 0x53_494d;
/// A second, independent custom transport ("plane B") on the same simulated network.
pub const SIM_TRANSPORT_ID_B: u64 = 0x53_494e;

pub fn slot_addr_on(tid: u64, slot: u8) -> CustomAddr {
    CustomAddr::from_parts(tid, &[slot])
}

/// Node key of (transport id, slot): plane B nodes live at slot + 128.
pub fn node_of(tid: u64, slot: u8) -> u8 {
    if tid == SIM_TRANSPORT_ID_B { slot | 0x80 } else { slot }
}

fn node_addr(node: u8) -> CustomAddr {
    if node & 0x80 != 0 { slot_addr_on(SIM_TRANSPORT_ID_B, node & 0x7f) } else { slot_addr_on(SIM_TRANSPORT_ID, node) }
}

pub fn slot_addr(slot: u8) -> CustomAddr {
    CustomAddr::from_parts(SIM_TRANSPORT_ID, &[slot])
}

fn addr_slot(a: &CustomAddr) -> Option<u8> {
    if a.id() != SIM_TRANSPORT_ID && a.id() != SIM_TRANSPORT_ID_B {
        return None;
    }
    a.data().first().copied()
}

#[derive(Debug, Clone, Default, serde::Serialize, serde::Deserialize)]
pub struct NetCfg {
    /// per-mille probabilities
    pub drop_pm: u32,
    pub dup_pm: u32,
    pub reorder_pm: u32,
    /// maximum one-way delay in ms (0 = immediate delivery)
    pub delay_max_ms: u64,
    /// per-mille of sender calls that fail with an I/O error / report would-block
    #[serde(default)]
    pub send_err_pm: u32,
    #[serde(default)]
    pub send_pending_pm: u32,
    /// plane B is down for the whole run: its senders report would-block and never wake the caller
    #[serde(default)]
    pub stuck_b: bool,
}

#[derive(Debug, Default)]
struct Node {
    queue: VecDeque<(u8, Bytes)>,
    waker: Option<Waker>,
    bound: bool,
    /// datagrams this node has put on the wire in the current virtual millisecond
    tx_in_tick: u32,
    tx_waiters: Vec<Waker>,
    refill_scheduled: bool,
}

/// Cost of putting one datagram on the wire, charged to the virtual clock at send time. Virtual
/// time otherwise only advances when nothing is runnable, so a sender that transmits in a tight
/// loop (e.g. a closing QUIC connection re-sending CONNECTION_CLOSE until its drain timer fires)
/// would keep the runtime busy forever. iroh's custom-transport dispatch treats `Poll::Pending`
/// from a sender as "drop the datagram", so would-block cannot provide the back-pressure.
pub const TX_COST: Duration = Duration::from_micros(100);
pub const TX_PER_MS: u32 = 16;

use super::rt::charge_clock;

#[derive(Debug, Clone)]
pub struct PacketLog {
    pub from: u8,
    pub to: u8,
    pub len: usize,
    /// "delivered" | "dropped" | "partitioned" | "no-such-node" | "duplicated"
    pub fate: &'static str,
}

#[derive(Debug)]
pub struct NetInner {
    nodes: BTreeMap<u8, Node>,
    pub cfg: NetCfg,
    rng: Rng,
    pub partitions: BTreeSet<(u8, u8)>,
    pub log: Vec<PacketLog>,
    /// endpoint id -> slots the lookup service hands out for it (several = competing addresses)
    pub routes: BTreeMap<EndpointId, Vec<u8>>,
    pub faults_enabled: bool,
    pub lookup_calls: u64,
    /// how often a sender hit the link capacity
    pub backpressure: u64,
    /// every call of a custom sender: (sender's transport id, destination transport id, from slot, to slot, outcome)
    pub sender_calls: Vec<(u64, u64, u8, u8, &'static str)>,
}

#[derive(Debug, Clone)]
pub struct SimNet(pub Arc<Mutex<NetInner>>);

impl SimNet {
    pub fn new(seed: u64, cfg: NetCfg) -> Self {
        SimNet(Arc::new(Mutex::new(NetInner {
            nodes: BTreeMap::new(),
            cfg,
            rng: Rng::new(seed ^ 0x5e7_0001),
            partitions: BTreeSet::new(),
            log: vec![],
            routes: BTreeMap::new(),
            faults_enabled: true,
            lookup_calls: 0,
            backpressure: 0,
            sender_calls: vec![],
        })))
    }

    pub fn transport(&self, slot: u8) -> Arc<SimTransport> {
        self.transport_on(SIM_TRANSPORT_ID, slot)
    }

    /// A custom transport with the given transport id at `slot` (slots of different transport ids
    /// are different nodes of the network: node key = slot + 128 for plane B).
    pub fn transport_on(&self, tid: u64, slot: u8) -> Arc<SimTransport> {
        let node = node_of(tid, slot);
        self.0.lock().unwrap().nodes.entry(node).or_default();
        Arc::new(SimTransport { slot: node, tid, net: self.clone(), addrs: n0_watcher::Watchable::new(vec![slot_addr_on(tid, slot)]) })
    }

    pub fn sender_calls(&self) -> Vec<(u64, u64, u8, u8, &'static str)> {
        self.0.lock().unwrap().sender_calls.clone()
    }

    /// The address lookup service of this network: endpoint id -> the slot the harness routed it to.
    pub fn lookup(&self) -> SimNetLookup {
        SimNetLookup(self.clone())
    }

    pub fn route(&self, id: EndpointId, slot: u8) {
        self.0.lock().unwrap().routes.insert(id, vec![slot]);
    }

    /// Several competing addresses for one id (e.g. the real holder and an impostor).
    pub fn route_multi(&self, id: EndpointId, slots: &[u8]) {
        self.0.lock().unwrap().routes.insert(id, slots.to_vec());
    }

    pub fn partition(&self, a: u8, b: u8, on: bool) {
        let mut g = self.0.lock().unwrap();
        if on {
            g.partitions.insert((a, b));
        } else {
            g.partitions.remove(&(a, b));
        }
    }

    pub fn stop_faults(&self) {
        let mut g = self.0.lock().unwrap();
        g.faults_enabled = false;
        g.partitions.clear();
    }

    pub fn log(&self) -> Vec<PacketLog> {
        self.0.lock().unwrap().log.clone()
    }

    pub fn packets_from(&self, slot: u8) -> usize {
        self.0.lock().unwrap().log.iter().filter(|p| p.from == slot).count()
    }

    /// Accounts one outgoing datagram of `slot`; false = would block (waker registered, woken in
    /// the next virtual millisecond).
    fn tx_admit(&self, slot: u8, cx: &mut Context<'_>) -> bool {
        let mut g = self.0.lock().unwrap();
        let node = g.nodes.entry(slot).or_default();
        if node.tx_in_tick < TX_PER_MS {
            node.tx_in_tick += 1;
            if !node.refill_scheduled {
                node.refill_scheduled = true;
                drop(g);
                self.schedule_refill(slot);
            }
            return true;
        }
        node.tx_waiters.push(cx.waker().clone());
        g.backpressure += 1;
        false
    }

    fn schedule_refill(&self, slot: u8) {
        let net = self.clone();
        tokio::spawn(async move {
            tokio::time::sleep(Duration::from_millis(1)).await;
            let wakers = {
                let mut g = net.0.lock().unwrap();
                let node = g.nodes.entry(slot).or_default();
                node.tx_in_tick = 0;
                node.refill_scheduled = false;
                std::mem::take(&mut node.tx_waiters)
            };
            for w in wakers {
                w.wake();
            }
        });
    }

    pub fn backpressure(&self) -> u64 {
        self.0.lock().unwrap().backpressure
    }

    fn deliver(&self, from: u8, to: u8, data: Bytes) {
        let mut g = self.0.lock().unwrap();
        if let Some(n) = g.nodes.get_mut(&to) {
            n.queue.push_back((from, data));
            if let Some(w) = n.waker.take() {
                w.wake();
            }
        }
    }

    fn send(&self, from: u8, to: u8, data: Bytes) {
        charge_clock(TX_COST);
        if std::env::var_os("VERIF_TRACE").is_some() {
            static T0: std::sync::OnceLock<tokio::time::Instant> = std::sync::OnceLock::new();
            let t0 = *T0.get_or_init(tokio::time::Instant::now);
            eprintln!("SIMNET send {from}->{to} len={} vnow={:?}", data.len(), t0.elapsed());
        }
        let (fate, delay, dup): (&'static str, u64, bool) = {
            let mut g = self.0.lock().unwrap();
            let len = data.len();
            let fate = if !g.nodes.contains_key(&to) {
                "no-such-node"
            } else if g.partitions.contains(&(from, to)) {
                "partitioned"
            } else if g.faults_enabled && g.cfg.drop_pm > 0 && g.rng.below(1000) < g.cfg.drop_pm as u64 {
                "dropped"
            } else {
                "delivered"
            };
            let mut delay = 0;
            let mut dup = false;
            if fate == "delivered" {
                let fe = g.faults_enabled;
                if g.cfg.delay_max_ms > 0 {
                    let dm = g.cfg.delay_max_ms;
                    delay = g.rng.range(0, dm);
                }
                if fe && g.cfg.reorder_pm > 0 && g.rng.below(1000) < g.cfg.reorder_pm as u64 {
                    delay += g.rng.range(1, 20);
                }
                dup = fe && g.cfg.dup_pm > 0 && g.rng.below(1000) < g.cfg.dup_pm as u64;
            }
            g.log.push(PacketLog { from, to, len, fate });
            if dup {
                g.log.push(PacketLog { from, to, len, fate: "duplicated" });
            }
            (fate, delay, dup)
        };
        if fate != "delivered" {
            return;
        }
        let copies = if dup { 2 } else { 1 };
        for c in 0..copies {
            let d = delay + c * 3;
            if d == 0 {
                self.deliver(from, to, data.clone());
            } else {
                let net = self.clone();
                let data = data.clone();
                tokio::spawn(async move {
                    tokio::time::sleep(Duration::from_millis(d)).await;
                    net.deliver(from, to, data);
                });
            }
        }
    }
}

#[derive(Debug)]
pub struct SimTransport {
    slot: u8,
    tid: u64,
    net: SimNet,
    addrs: n0_watcher::Watchable<Vec<CustomAddr>>,
}

impl CustomTransport for SimTransport {
    fn bind(&self) -> io::Result<Box<dyn CustomEndpoint>> {
        self.net.0.lock().unwrap().nodes.entry(self.slot).or_default().bound = true;
        Ok(Box::new(SimEndpoint { slot: self.slot, tid: self.tid, net: self.net.clone(), addrs: self.addrs.clone() }))
    }
}

#[derive(Debug)]
struct SimEndpoint {
    slot: u8,
    tid: u64,
    net: SimNet,
    addrs: n0_watcher::Watchable<Vec<CustomAddr>>,
}

#[derive(Debug)]
struct SimSender {
    slot: u8,
    tid: u64,
    net: SimNet,
}

impl CustomSender for SimSender {
    fn is_valid_send_addr(&self, addr: &CustomAddr) -> bool {
        addr.id() == self.tid
    }

    fn poll_send(&self, cx: &mut Context, dst: &CustomAddr, _src: Option<&CustomAddr>, transmit: &Transmit<'_>) -> Poll<io::Result<()>> {
        let Some(to) = addr_slot(dst).map(|s| node_of(dst.id(), s)) else {
            return Poll::Ready(Err(io::Error::other("sim: bad address")));
        };
        // injected sender faults (transient): I/O error or would-block
        let fault = {
            let mut g = self.net.0.lock().unwrap();
            let f = if g.cfg.stuck_b && self.tid == SIM_TRANSPORT_ID_B {
                "stuck"
            } else if g.faults_enabled && g.cfg.send_err_pm > 0 && g.rng.below(1000) < g.cfg.send_err_pm as u64 {
                "io-error"
            } else if g.faults_enabled && g.cfg.send_pending_pm > 0 && g.rng.below(1000) < g.cfg.send_pending_pm as u64 {
                "would-block"
            } else {
                "sent"
            };
            g.sender_calls.push((self.tid, dst.id(), self.slot, to, f));
            f
        };
        match fault {
            "io-error" => return Poll::Ready(Err(io::Error::other("sim: injected send error"))),
            "would-block" => {
                cx.waker().wake_by_ref();
                return Poll::Pending;
            }
            "stuck" => return Poll::Pending,
            _ => {}
        }
        let seg = transmit.segment_size.unwrap_or(transmit.contents.len()).max(1);
        for chunk in transmit.contents.chunks(seg) {
            self.net.send(self.slot, to, Bytes::copy_from_slice(chunk));
        }
        Poll::Ready(Ok(()))
    }
}

impl CustomEndpoint for SimEndpoint {
    fn watch_local_addrs(&self) -> n0_watcher::Direct<Vec<CustomAddr>> {
        self.addrs.watch()
    }

    fn create_sender(&self) -> Arc<dyn CustomSender> {
        Arc::new(SimSender { slot: self.slot, tid: self.tid, net: self.net.clone() })
    }

    fn poll_recv(&mut self, cx: &mut Context, bufs: &mut [io::IoSliceMut<'_>], metas: &mut [noq_udp::RecvMeta], recv_infos: &mut [RecvInfo]) -> Poll<io::Result<usize>> {
        let mut g = self.net.0.lock().unwrap();
        let node = g.nodes.entry(self.slot).or_default();
        let mut n = 0;
        while n < bufs.len() {
            let Some((from, data)) = node.queue.pop_front() else { break };
            if data.len() > bufs[n].len() {
                continue;
            }
            bufs[n][..data.len()].copy_from_slice(&data);
            metas[n].len = data.len();
            metas[n].stride = data.len();
            recv_infos[n] = RecvInfo::new(node_addr(from), Some(node_addr(self.slot)));
            n += 1;
        }
        if n > 0 {
            Poll::Ready(Ok(n))
        } else {
            node.waker = Some(cx.waker().clone());
            Poll::Pending
        }
    }

    fn max_transmit_segments(&self) -> NonZeroUsize {
        NonZeroUsize::MIN
    }
}

#[derive(Debug, Clone)]
pub struct SimNetLookup(SimNet);

impl AddressLookup for SimNetLookup {
    fn resolve(&self, endpoint_id: EndpointId) -> Option<BoxStream<Result<Item, LookupError>>> {
        let mut g = self.0.0.lock().unwrap();
        g.lookup_calls += 1;
        let slots = g.routes.get(&endpoint_id).cloned()?;
        let item = Item::new(
            EndpointInfo::from_parts(endpoint_id, EndpointData::new(slots.iter().map(|s| TransportAddr::Custom(node_addr(*s))).collect::<Vec<_>>())),
            "simnet",
            None,
        );
        Some(Box::pin(n0_future::stream::once(Ok(item))))
    }
}

// ------------------------------------------------------------------------------------------
// Raw datagram socket on a SimNet slot for a bare `noq::Endpoint` (the adversary of C01): the same
// network, faults and packet log as the iroh endpoints' custom transport, but none of iroh's code.

/// The socket address a bare noq endpoint sees for a SimNet slot.
pub fn slot_sockaddr(slot: u8) -> std::net::SocketAddr {
    std::net::SocketAddr::new(std::net::Ipv6Addr::new(0xfd00, 0x51d, 0, 0, 0, 0, 0, slot as u16).into(), 4433)
}

fn sockaddr_slot(a: &std::net::SocketAddr) -> Option<u8> {
    match a.ip() {
        std::net::IpAddr::V6(ip) => {
            let s = ip.segments();
            (s[0] == 0xfd00 && s[1] == 0x51d && s[7] <= 255).then_some(s[7] as u8)
        }
        _ => None,
    }
}

#[derive(Debug)]
pub struct SimUdpSocket {
    slot: u8,
    net: SimNet,
}

#[derive(Debug)]
struct SimUdpSender {
    slot: u8,
    net: SimNet,
}

impl SimNet {
    pub fn udp_socket(&self, slot: u8) -> Box<dyn noq::AsyncUdpSocket> {
        self.0.lock().unwrap().nodes.entry(slot).or_default().bound = true;
        Box::new(SimUdpSocket { slot, net: self.clone() })
    }
}

impl noq::UdpSender for SimUdpSender {
    fn poll_send(self: std::pin::Pin<&mut Self>, transmit: &noq_udp::Transmit<'_>, cx: &mut Context<'_>) -> Poll<io::Result<()>> {
        let Some(to) = sockaddr_slot(&transmit.destination) else {
            return Poll::Ready(Ok(())); // not a simulated peer: dropped on the floor
        };
        let _ = cx;
        let seg = transmit.segment_size.unwrap_or(transmit.contents.len()).max(1);
        for chunk in transmit.contents.chunks(seg) {
            self.net.send(self.slot, to, Bytes::copy_from_slice(chunk));
        }
        Poll::Ready(Ok(()))
    }
}

impl noq::AsyncUdpSocket for SimUdpSocket {
    fn create_sender(&self) -> std::pin::Pin<Box<dyn noq::UdpSender>> {
        Box::pin(SimUdpSender { slot: self.slot, net: self.net.clone() })
    }

    fn poll_recv(&mut self, cx: &mut Context<'_>, bufs: &mut [io::IoSliceMut<'_>], meta: &mut [noq_udp::RecvMeta]) -> Poll<io::Result<usize>> {
        let mut g = self.net.0.lock().unwrap();
        let node = g.nodes.entry(self.slot).or_default();
        let mut n = 0;
        while n < bufs.len().min(meta.len()) {
            let Some((from, data)) = node.queue.pop_front() else { break };
            if data.len() > bufs[n].len() {
                continue;
            }
            bufs[n][..data.len()].copy_from_slice(&data);
            let mut m = noq_udp::RecvMeta::default();
            m.addr = slot_sockaddr(from);
            m.len = data.len();
            m.stride = data.len();
            m.dst_ip = Some(slot_sockaddr(self.slot).ip());
            meta[n] = m;
            n += 1;
        }
        if n > 0 {
            Poll::Ready(Ok(n))
        } else {
            node.waker = Some(cx.waker().clone());
            Poll::Pending
        }
    }

    fn local_addr(&self) -> io::Result<std::net::SocketAddr> {
        Ok(slot_sockaddr(self.slot))
    }

    fn may_fragment(&self) -> bool {
        false
    }
}
