//! `BytePipe`: in-memory duplex byte stream (`AsyncRead + AsyncWrite`) standing in for a TCP/TLS
//! connection. Faults on an end: error / EOF / stall at its k-th I/O operation, short reads and
//! writes (fragmentation down to 1 byte), spurious `Pending` ("would block") with immediate
//! re-wake, optional TLS exporter secret.

use std::{
    collections::VecDeque,
    io,
    pin::Pin,
    sync::{Arc, Mutex},
    task::{Context, Poll, Waker},
};

use tokio::io::{AsyncRead, AsyncWrite, ReadBuf};

use super::Rng;

#[derive(Debug, Default)]
pub struct ByteChan {
    pub buf: VecDeque<u8>,
    pub closed: bool,
    pub errored: bool,
    pub waker: Option<Waker>,
    pub total: u64,
    /// bounded buffer: writes report would-block while this many bytes are unread
    pub limit: Option<usize>,
    pub write_waker: Option<Waker>,
}

#[derive(Clone, Copy, Debug, PartialEq, Eq, serde::Serialize, serde::Deserialize)]
pub enum FaultKind {
    /// the operation fails with an I/O error
    Error,
    /// reads see EOF; writes fail with BrokenPipe
    Eof,
    /// the operation never completes (no wake-up)
    Stall,
}

#[derive(Clone, Copy, Debug, PartialEq, Eq)]
pub enum OpKind {
    Read,
    Write,
    Flush,
    Shutdown,
}

#[derive(Debug)]
pub struct EndState {
    /// completed-or-faulted operations so far on this end
    pub ops: u64,
    pub op_log: Vec<OpKind>,
    pub fault_at: Option<(u64, FaultKind)>,
    pub fault_fired: Option<(u64, OpKind, FaultKind)>,
    /// after a fault fired every later op fails the same way
    pub dead: Option<FaultKind>,
    pub max_chunk: usize,
    /// probability (per mille) that an op first returns Pending and re-wakes itself
    pub wouldblock_pm: u32,
    pub rng: Rng,
    pub pending_once: bool,
    pub polls: u64,
    pub dropped: bool,
}

#[derive(Debug)]
pub struct PipeEnd {
    rx: Arc<Mutex<ByteChan>>,
    tx: Arc<Mutex<ByteChan>>,
    pub st: Arc<Mutex<EndState>>,
    pub keying: Option<[u8; 32]>,
}

pub fn byte_pipe(seed: u64) -> (PipeEnd, PipeEnd) {
    let ab: Arc<Mutex<ByteChan>> = Default::default();
    let ba: Arc<Mutex<ByteChan>> = Default::default();
    let mk = |i: u64| {
        Arc::new(Mutex::new(EndState {
            ops: 0,
            op_log: vec![],
            fault_at: None,
            fault_fired: None,
            dead: None,
            max_chunk: usize::MAX,
            wouldblock_pm: 0,
            rng: Rng::new(seed ^ (0xB17E + i)),
            pending_once: false,
            polls: 0,
            dropped: false,
        }))
    };
    (
        PipeEnd { rx: ba.clone(), tx: ab.clone(), st: mk(1), keying: None },
        PipeEnd { rx: ab, tx: ba, st: mk(2), keying: None },
    )
}

impl PipeEnd {
    pub fn state(&self) -> Arc<Mutex<EndState>> {
        self.st.clone()
    }

    fn gate(&self, kind: OpKind, cx: &mut Context<'_>) -> Result<Option<FaultKind>, ()> {
        // Ok(None): proceed; Ok(Some(f)): inject f; Err(()): return Pending (would-block)
        let mut g = self.st.lock().unwrap();
        g.polls += 1;
        if let Some(d) = g.dead {
            return Ok(Some(d));
        }
        if g.wouldblock_pm > 0 && !g.pending_once && g.rng.below(1000) < g.wouldblock_pm as u64 {
            g.pending_once = true;
            cx.waker().wake_by_ref();
            return Err(());
        }
        g.pending_once = false;
        if let Some((k, f)) = g.fault_at {
            if g.ops == k {
                g.fault_fired = Some((k, kind, f));
                g.dead = Some(f);
                g.ops += 1;
                g.op_log.push(kind);
                return Ok(Some(f));
            }
        }
        Ok(None)
    }

    fn done(&self, kind: OpKind) {
        let mut g = self.st.lock().unwrap();
        g.ops += 1;
        g.op_log.push(kind);
    }
}

impl Drop for PipeEnd {
    fn drop(&mut self) {
        self.st.lock().unwrap().dropped = true;
        let mut g = self.tx.lock().unwrap();
        g.closed = true;
        if let Some(w) = g.waker.take() {
            w.wake();
        }
    }
}

fn ioerr(s: &str) -> io::Error {
    io::Error::new(io::ErrorKind::ConnectionReset, s.to_string())
}

impl AsyncRead for PipeEnd {
    fn poll_read(self: Pin<&mut Self>, cx: &mut Context<'_>, buf: &mut ReadBuf<'_>) -> Poll<io::Result<()>> {
        // only count an op when the read would complete
        {
            let g = self.rx.lock().unwrap();
            if g.buf.is_empty() && !g.closed && !g.errored {
                let dead = self.st.lock().unwrap().dead;
                match dead {
                    Some(FaultKind::Error) => return Poll::Ready(Err(ioerr("sim: read error"))),
                    Some(FaultKind::Eof) => return Poll::Ready(Ok(())),
                    Some(FaultKind::Stall) => return Poll::Pending,
                    None => {}
                }
                drop(g);
                self.rx.lock().unwrap().waker = Some(cx.waker().clone());
                self.st.lock().unwrap().polls += 1;
                return Poll::Pending;
            }
        }
        match self.gate(OpKind::Read, cx) {
            Err(()) => return Poll::Pending,
            Ok(Some(FaultKind::Error)) => return Poll::Ready(Err(ioerr("sim: read error"))),
            Ok(Some(FaultKind::Eof)) => return Poll::Ready(Ok(())),
            Ok(Some(FaultKind::Stall)) => return Poll::Pending,
            Ok(None) => {}
        }
        let max_chunk = self.st.lock().unwrap().max_chunk;
        let mut g = self.rx.lock().unwrap();
        if g.buf.is_empty() {
            drop(g);
            self.done(OpKind::Read);
            let g = self.rx.lock().unwrap();
            if g.errored {
                return Poll::Ready(Err(ioerr("sim: connection reset by peer")));
            }
            return Poll::Ready(Ok(())); // EOF
        }
        let n = buf.remaining().min(g.buf.len()).min(max_chunk.max(1));
        for _ in 0..n {
            let b = g.buf.pop_front().unwrap();
            buf.put_slice(&[b]);
        }
        if let Some(w) = g.write_waker.take() {
            w.wake();
        }
        drop(g);
        self.done(OpKind::Read);
        Poll::Ready(Ok(()))
    }
}

impl AsyncWrite for PipeEnd {
    fn poll_write(self: Pin<&mut Self>, cx: &mut Context<'_>, data: &[u8]) -> Poll<io::Result<usize>> {
        match self.gate(OpKind::Write, cx) {
            Err(()) => return Poll::Pending,
            Ok(Some(FaultKind::Error)) => return Poll::Ready(Err(ioerr("sim: write error"))),
            Ok(Some(FaultKind::Eof)) => return Poll::Ready(Err(io::Error::new(io::ErrorKind::BrokenPipe, "sim: broken pipe"))),
            Ok(Some(FaultKind::Stall)) => return Poll::Pending,
            Ok(None) => {}
        }
        let max_chunk = self.st.lock().unwrap().max_chunk;
        let mut g = self.tx.lock().unwrap();
        if g.closed || g.errored {
            drop(g);
            self.done(OpKind::Write);
            return Poll::Ready(Err(io::Error::new(io::ErrorKind::BrokenPipe, "sim: peer closed")));
        }
        if g.limit.is_some_and(|l| g.buf.len() >= l) {
            g.write_waker = Some(cx.waker().clone());
            return Poll::Pending;
        }
        let n = data.len().min(max_chunk.max(1));
        g.buf.extend(&data[..n]);
        g.total += n as u64;
        if let Some(w) = g.waker.take() {
            w.wake();
        }
        drop(g);
        self.done(OpKind::Write);
        Poll::Ready(Ok(n))
    }

    fn poll_flush(self: Pin<&mut Self>, cx: &mut Context<'_>) -> Poll<io::Result<()>> {
        match self.gate(OpKind::Flush, cx) {
            Err(()) => return Poll::Pending,
            Ok(Some(FaultKind::Error)) => return Poll::Ready(Err(ioerr("sim: flush error"))),
            Ok(Some(FaultKind::Eof)) => return Poll::Ready(Err(io::Error::new(io::ErrorKind::BrokenPipe, "sim: broken pipe"))),
            Ok(Some(FaultKind::Stall)) => return Poll::Pending,
            Ok(None) => {}
        }
        self.done(OpKind::Flush);
        Poll::Ready(Ok(()))
    }

    fn poll_shutdown(self: Pin<&mut Self>, _cx: &mut Context<'_>) -> Poll<io::Result<()>> {
        let mut g = self.tx.lock().unwrap();
        g.closed = true;
        if let Some(w) = g.waker.take() {
            w.wake();
        }
        drop(g);
        self.done(OpKind::Shutdown);
        Poll::Ready(Ok(()))
    }
}

/// Closes this end's outgoing direction abruptly (peer sees a reset).
pub fn reset(end_tx: &Arc<Mutex<ByteChan>>) {
    let mut g = end_tx.lock().unwrap();
    g.errored = true;
    if let Some(w) = g.waker.take() {
        w.wake();
    }
}

impl PipeEnd {
    pub fn tx_chan(&self) -> Arc<Mutex<ByteChan>> {
        self.tx.clone()
    }
    pub fn export(&self, out: &mut [u8], label: &[u8], context: Option<&[u8]>) -> bool {
        match self.keying {
            Some(secret) => {
                let m = super::framed::sim_export_n(&secret, label, context, out.len());
                out.copy_from_slice(&m);
                true
            }
            None => false,
        }
    }
}
