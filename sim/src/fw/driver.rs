//! Batch driver: seeded search over cases, run isolation, minimisation, replay files, evidence.

use std::{
    collections::{BTreeMap, HashSet},
    panic::{self, AssertUnwindSafe},
    path::{Path, PathBuf},
    sync::{
        Arc, Mutex,
        atomic::{AtomicBool, AtomicU64, Ordering},
        mpsc,
    },
    time::{Duration, Instant},
};

use serde_json::{Value, json};

use super::{Ctx, Outcome, Property, Tier, Violation, entropy, rng};

pub const DEFAULT_SEED: u64 = 20260921;

#[derive(Debug, Clone)]
pub struct Args {
    pub id: String,
    pub tier: Tier,
    pub seed: u64,
    pub runs: Option<u64>,
    pub jobs: usize,
    pub replay: Option<PathBuf>,
    pub replay_verify: Option<PathBuf>,
    pub hashes: bool,
    pub no_evidence: bool,
    /// debugging: write the generated case of this run seed in replay format and exit
    pub dump_case: Option<u64>,
}

thread_local! {
    static PANICS: std::cell::RefCell<Vec<(String, String)>> = const { std::cell::RefCell::new(Vec::new()) };
    static IN_SIM: std::cell::Cell<bool> = const { std::cell::Cell::new(false) };
}

/// Panics recorded by any thread that is part of an E2 run (keyed by nothing: E2 runs are
/// process-serial per worker thread group, see e2.rs which drains via `take_global_panics`).
static GLOBAL_PANICS: Mutex<Vec<(u64, String, String)>> = Mutex::new(Vec::new());

thread_local! {
    /// E2 worker threads tag themselves with the run token of the run they belong to.
    pub static RUN_TOKEN: std::cell::Cell<u64> = const { std::cell::Cell::new(0) };
}

pub fn take_global_panics(token: u64) -> Vec<(String, String)> {
    let mut g = GLOBAL_PANICS.lock().unwrap();
    let mut out = vec![];
    g.retain(|(t, m, l)| {
        if *t == token {
            out.push((m.clone(), l.clone()));
            false
        } else {
            true
        }
    });
    out
}

pub fn install_panic_hook() {
    let default = panic::take_hook();
    panic::set_hook(Box::new(move |info| {
        let in_sim = IN_SIM.try_with(|c| c.get()).unwrap_or(false);
        let token = RUN_TOKEN.try_with(|c| c.get()).unwrap_or(0);
        let msg = if let Some(s) = info.payload().downcast_ref::<&str>() {
            s.to_string()
        } else if let Some(s) = info.payload().downcast_ref::<String>() {
            s.clone()
        } else {
            "<non-string panic>".to_string()
        };
        let loc = info
            .location()
            .map(|l| format!("{}:{}", l.file(), l.line()))
            .unwrap_or_else(|| "?".into());
        if std::env::var_os("VERIF_TRACE").is_some() {
            eprintln!("PANIC {msg} at {loc}");
        }
        if in_sim {
            let _ = PANICS.try_with(|p| p.borrow_mut().push((msg, loc)));
        } else if token != 0 {
            GLOBAL_PANICS.lock().unwrap().push((token, msg, loc));
        } else {
            default(info);
        }
    }));
}

fn is_harness_location(loc: &str) -> bool {
    // Our own crate is compiled with paths relative to /verif/sim ("src/...").
    loc.starts_with("src/") || loc.contains("/verif/sim/")
}

/// Stable panic signature: file (path tail from the crate dir) + line.
pub fn panic_class(loc: &str) -> String {
    let short = if let Some(i) = loc.find("/repo/") {
        &loc[i + 6..]
    } else if let Some(i) = loc.find("/registry/src/") {
        let rest = &loc[i + 14..];
        rest.split_once('/').map(|x| x.1).unwrap_or(rest)
    } else {
        loc
    };
    format!("panic@{short}")
}

/// Executes one explicit case on a fresh OS thread (fresh thread-locals: hash keys, thread rng).
pub fn run_isolated(prop: &Arc<dyn Property>, seed: u64, case: &Value, keep_history: bool) -> Outcome {
    let (tx, rx) = mpsc::channel();
    let prop2 = prop.clone();
    let case2 = case.clone();
    let cap = prop.wall_cap_s();
    let handle = std::thread::Builder::new()
        .name(format!("sim-{seed:x}"))
        .stack_size(8 << 20)
        .spawn(move || {
            entropy::seed_thread(seed);
            IN_SIM.with(|c| c.set(true));
            let ctx = Ctx::new(keep_history);
            super::set_current(Some(ctx.clone()));
            let r = panic::catch_unwind(AssertUnwindSafe(|| prop2.execute(&case2, &ctx)));
            super::set_current(None);
            IN_SIM.with(|c| c.set(false));
            entropy::clear_thread();
            let panics: Vec<(String, String)> = PANICS.with(|p| std::mem::take(&mut *p.borrow_mut()));
            let mut harness_error = None;
            for (msg, loc) in &panics {
                if is_harness_location(loc) {
                    harness_error = Some(format!("harness panic at {loc}: {msg}"));
                } else {
                    ctx.violate(panic_class(loc), format!("panic: {msg} at {loc}"));
                }
            }
            if r.is_err() && panics.is_empty() {
                harness_error = Some("run unwound without a recorded panic".into());
            }
            let g = ctx.0.lock().unwrap();
            let out = Outcome {
                violation: g.violation.clone(),
                hash: g.hasher,
                nontrivial: g.nontrivial,
                sim_ns: g.sim_ns,
                counters: g.counters.clone(),
                history: g.history.clone(),
                harness_error,
            };
            let _ = tx.send(out);
        })
        .expect("spawn run thread");
    match rx.recv_timeout(Duration::from_secs(cap)) {
        Ok(o) => {
            let _ = handle.join();
            o
        }
        Err(_) => Outcome {
            violation: None,
            hash: 0,
            nontrivial: false,
            sim_ns: 0,
            counters: BTreeMap::new(),
            history: vec![],
            harness_error: Some(format!("watchdog: run seed {seed} exceeded {cap}s wall")),
        },
    }
}

pub fn run_seed(base: u64, id: &str, idx: u64) -> u64 {
    rng::mix(&[base, rng::hash_str(id), idx])
}

#[derive(Default)]
struct Agg {
    evaluations: u64,
    nontrivial: u64,
    distinct: HashSet<u64>,
    distinct_all: HashSet<u64>,
    sim_ns: u128,
    counters: BTreeMap<String, u64>,
    samples: Vec<Value>,
    violations: BTreeMap<String, (u64, Value, Violation, u64)>, // class -> (seed, case, violation, count)
    harness_errors: Vec<String>,
    hashes: Vec<(u64, u64)>,
}

struct Known {
    known: Vec<(String, String, String)>, // (property, class, text)
}

fn load_known(root: &Path) -> Known {
    let mut known = vec![];
    if let Ok(s) = std::fs::read_to_string(root.join("known-findings.txt")) {
        for line in s.lines() {
            let line = line.trim();
            if let Some(rest) = line.strip_prefix("known:") {
                let mut prop = String::new();
                let mut class = String::new();
                for tok in rest.split_whitespace() {
                    if let Some(p) = tok.strip_prefix("property=") {
                        prop = p.to_string();
                    } else if let Some(c) = tok.strip_prefix("class=") {
                        class = c.to_string();
                    }
                }
                if !prop.is_empty() && !class.is_empty() {
                    known.push((prop, class, rest.trim().to_string()));
                }
            }
        }
    }
    Known { known }
}

fn root_dir() -> PathBuf {
    if let Ok(r) = std::env::var("VERIF_ROOT") {
        return PathBuf::from(r);
    }
    std::env::current_dir().expect("cwd")
}

pub fn main_for(prop: Arc<dyn Property>, args: &Args) -> i32 {
    install_panic_hook();
    let root = root_dir();
    if let Some(p) = &args.replay.clone().or(args.replay_verify.clone()) {
        return replay(&prop, p, args.replay_verify.is_some());
    }
    if let Some(rs) = args.dump_case {
        let case = prop.generate(rs, args.tier);
        let body = json!({"property": prop.id(), "seed": rs, "class": "debug", "detail": "", "history_index": 0, "case": case});
        println!("{}", serde_json::to_string_pretty(&body).unwrap());
        return 0;
    }
    let t_start = Instant::now();
    let id = prop.id();
    let runs = args.runs.unwrap_or_else(|| prop.runs(args.tier));
    println!(
        "verif-sim property={id} tier={} VERIF_SEED={} runs={runs} jobs={} engine={}",
        args.tier.as_str(),
        args.seed,
        args.jobs,
        prop.engine()
    );
    let next = Arc::new(AtomicU64::new(0));
    let stop = Arc::new(AtomicBool::new(false));
    let agg = Arc::new(Mutex::new(Agg::default()));
    let budget_s: u64 = std::env::var("VERIF_BUDGET_S")
        .ok()
        .and_then(|s| s.parse().ok())
        .unwrap_or(match args.tier {
            Tier::Quick => 50,
            Tier::Thorough => 900,
        });
    let mut workers = vec![];
    let jobs = prop.max_jobs().map(|m| m.min(args.jobs)).unwrap_or(args.jobs).max(1);
    for _w in 0..jobs {
        let prop = prop.clone();
        let next = next.clone();
        let stop = stop.clone();
        let agg = agg.clone();
        let args = args.clone();
        workers.push(std::thread::spawn(move || {
            let mut local = Agg::default();
            loop {
                if stop.load(Ordering::Relaxed) {
                    break;
                }
                let i = next.fetch_add(1, Ordering::Relaxed);
                if i >= runs {
                    break;
                }
                if t_start.elapsed().as_secs() >= budget_s {
                    break;
                }
                let seed = run_seed(args.seed, prop.id(), i);
                let case = prop.generate(seed, args.tier);
                // debugging aid (never set by registered commands): dump one run's history as seen inside the batch
                let dump = std::env::var("VERIF_DUMP_RUN").ok().and_then(|s| s.parse::<u64>().ok()) == Some(i);
                let keep = i < 3 || dump;
                let out = run_isolated(&prop, seed, &case, keep);
                if dump {
                    let _ = std::fs::write(format!("/tmp/verif-dump-{}-{i}.txt", std::process::id()), out.history.join("\n"));
                }
                local.evaluations += 1;
                if let Some(e) = &out.harness_error {
                    local.harness_errors.push(format!("run {i} seed {seed}: {e}"));
                    stop.store(true, Ordering::Relaxed);
                    break;
                }
                // determinism self-check on a sample of runs: same case twice, same history hash.
                if i < 4 || i % 997 == 0 {
                    let again = run_isolated(&prop, seed, &case, false);
                    if again.hash != out.hash && again.harness_error.is_none() {
                        local.harness_errors.push(format!(
                            "non-determinism: run {i} seed {seed} hash {:x} vs {:x}",
                            out.hash, again.hash
                        ));
                        stop.store(true, Ordering::Relaxed);
                        break;
                    }
                }
                local.distinct_all.insert(out.hash);
                if out.nontrivial {
                    local.nontrivial += 1;
                    local.distinct.insert(out.hash);
                }
                local.sim_ns += out.sim_ns as u128;
                for (k, v) in &out.counters {
                    *local.counters.entry(k.clone()).or_insert(0) += v;
                }
                if args.hashes {
                    local.hashes.push((i, out.hash));
                }
                if keep {
                    let hist: Vec<&String> = out.history.iter().take(60).collect();
                    local.samples.push(json!({
                        "run": i, "seed": seed, "case": case,
                        "history_len": out.history.len(), "history_head": hist,
                        "violation": out.violation.as_ref().map(|v| v.class.clone()),
                    }));
                }
                if let Some(v) = out.violation {
                    let e = local
                        .violations
                        .entry(v.class.clone())
                        .or_insert((seed, case.clone(), v, 0));
                    e.3 += 1;
                    // smaller cases first: keep the one with the shortest JSON
                    if case.to_string().len() < e.1.to_string().len() {
                        e.0 = seed;
                        e.1 = case.clone();
                    }
                }
            }
            let mut g = agg.lock().unwrap();
            g.evaluations += local.evaluations;
            g.nontrivial += local.nontrivial;
            g.distinct.extend(local.distinct);
            g.distinct_all.extend(local.distinct_all);
            g.sim_ns += local.sim_ns;
            for (k, v) in local.counters {
                *g.counters.entry(k).or_insert(0) += v;
            }
            g.samples.extend(local.samples);
            g.hashes.extend(local.hashes);
            g.harness_errors.extend(local.harness_errors);
            for (k, v) in local.violations {
                match g.violations.get_mut(&k) {
                    Some(e) => {
                        e.3 += v.3;
                        if v.1.to_string().len() < e.1.to_string().len() {
                            e.0 = v.0;
                            e.1 = v.1;
                            e.2 = v.2;
                        }
                    }
                    None => {
                        g.violations.insert(k, v);
                    }
                }
            }
        }));
    }
    for w in workers {
        let _ = w.join();
    }
    let mut g = agg.lock().unwrap();
    if !g.harness_errors.is_empty() {
        for e in g.harness_errors.iter().take(3) {
            println!("HARNESS-ERROR property={id} {e}");
        }
        return 2;
    }
    if args.hashes {
        g.hashes.sort();
        for (i, h) in &g.hashes {
            println!("HASH {i} {h:016x}");
        }
    }
    g.samples.sort_by_key(|s| s["run"].as_u64().unwrap_or(0));

    // Triage violations: minimise, write replay, verify replay in a fresh process, match known.
    let known = load_known(&root);
    let mut unknown_violations = 0;
    let mut known_lines = vec![];
    let mut violation_lines = vec![];
    let classes: Vec<String> = g.violations.keys().cloned().collect();
    let mut class_summary = vec![];
    for class in classes {
        let (seed, case, viol, count) = g.violations.get(&class).unwrap().clone();
        let (min_case, min_viol, tried) = minimise(&prop, seed, &case, &viol);
        let path = write_replay(&root, id, seed, &min_case, &min_viol);
        let ok = verify_replay_fresh(&path, &class);
        class_summary.push(json!({"class": class, "runs": count, "seed": seed, "detail": min_viol.detail,
            "replay": path.display().to_string(), "minimise_executions": tried, "replay_reproduced": ok}));
        if !ok {
            println!(
                "HARNESS-ERROR property={id} replay {} did not reproduce class {class} in a fresh process",
                path.display()
            );
            return 2;
        }
        if let Some((_, _, text)) = known.known.iter().find(|(p, c, _)| p == id && *c == class) {
            known_lines.push(format!("KNOWN-FINDING: {text} [runs={count} replay={}]", path.display()));
        } else {
            unknown_violations += 1;
            violation_lines.push(format!(
                "VIOLATION property={id} replay={} class={class} seed={seed} runs={count} :: {}",
                path.display(),
                min_viol.detail
            ));
        }
    }
    let wall = t_start.elapsed().as_secs_f64();
    let evals = g.evaluations.max(1);
    let runs_per_hour = (g.evaluations as f64 / wall.max(1e-6) * 3600.0) as u64;
    let mut samples: Vec<Value> = g.samples.iter().take(3).cloned().collect();
    if samples.is_empty() {
        samples.push(json!({"note": "no sample recorded"}));
    }
    let (faults, probes): (BTreeMap<String, u64>, BTreeMap<String, u64>) = {
        let mut f = BTreeMap::new();
        let mut p = BTreeMap::new();
        for (k, v) in &g.counters {
            if let Some(k) = k.strip_prefix("fault.") {
                f.insert(k.to_string(), *v);
            } else {
                p.insert(k.clone(), *v);
            }
        }
        (f, p)
    };
    let evidence = json!({
        "property_id": id,
        "tier": args.tier.as_str(),
        "seed": args.seed,
        "level": prop.level(),
        "coverage": {
            "evaluations": g.evaluations,
            "distinct_nontrivial": g.distinct.len(),
            "nontrivial_runs": g.nontrivial,
            "distinct_histories_all": g.distinct_all.len(),
            "rule": prop.rule(),
            "samples": samples,
            "engine": prop.engine(),
            "runs_per_hour": runs_per_hour,
            "seeds_per_hour": runs_per_hour,
            "simulated_time_s": (g.sim_ns as f64) / 1e9,
            "simulated_time_per_run_ms": (g.sim_ns as f64) / 1e6 / evals as f64,
            "faults_fired": faults,
            "probes": probes,
            "real_vs_stub": prop.real_vs_stub(),
            "violation_classes": class_summary,
            "exhaustive": false,
        },
        "assumptions": prop.assumptions(),
        "wall_s": wall,
        "violations": unknown_violations,
    });
    if !args.no_evidence {
        let dir = root.join("evidence");
        let _ = std::fs::create_dir_all(&dir);
        let p = dir.join(format!("{id}.json"));
        std::fs::write(&p, serde_json::to_string_pretty(&evidence).unwrap()).expect("write evidence");
    }
    println!(
        "property={id} evaluations={} nontrivial={} distinct_nontrivial={} sim_time_s={:.1} wall_s={:.1} runs_per_hour={}",
        g.evaluations,
        g.nontrivial,
        g.distinct.len(),
        (g.sim_ns as f64) / 1e9,
        wall,
        runs_per_hour
    );
    for (k, v) in &g.counters {
        println!("  counter {k} = {v}");
    }
    for l in &known_lines {
        println!("{l}");
    }
    for l in &violation_lines {
        println!("{l}");
    }
    if unknown_violations > 0 { 1 } else { 0 }
}

fn same_class(a: &Option<Violation>, class: &str) -> bool {
    a.as_ref().map(|v| v.class == class).unwrap_or(false)
}

fn minimise(prop: &Arc<dyn Property>, seed: u64, case: &Value, viol: &Violation) -> (Value, Violation, u32) {
    let mut cur = case.clone();
    let mut cur_v = viol.clone();
    let mut tried = 0u32;
    let budget = 300;
    'outer: loop {
        let cands = prop.shrink(&cur);
        for c in cands {
            if tried >= budget {
                break 'outer;
            }
            tried += 1;
            let out = run_isolated(prop, seed, &c, false);
            if out.harness_error.is_none() && same_class(&out.violation, &viol.class) {
                cur = c;
                cur_v = out.violation.unwrap();
                continue 'outer;
            }
        }
        break;
    }
    (cur, cur_v, tried)
}

fn write_replay(root: &Path, id: &str, seed: u64, case: &Value, v: &Violation) -> PathBuf {
    let dir = root.join("replays");
    let _ = std::fs::create_dir_all(&dir);
    let safe: String = v
        .class
        .chars()
        .map(|c| if c.is_ascii_alphanumeric() || c == '-' || c == '_' { c } else { '_' })
        .take(60)
        .collect();
    let p = dir.join(format!("{id}-{safe}-{seed:016x}.json"));
    let body = json!({"property": id, "seed": seed, "class": v.class, "detail": v.detail, "history_index": v.at, "case": case});
    std::fs::write(&p, serde_json::to_string_pretty(&body).unwrap()).expect("write replay");
    p
}

fn verify_replay_fresh(path: &Path, class: &str) -> bool {
    let exe = std::env::current_exe().expect("exe");
    let out = std::process::Command::new(exe)
        .arg("replay")
        .arg("--replay-verify")
        .arg(path)
        .output();
    match out {
        Ok(o) => {
            let s = String::from_utf8_lossy(&o.stdout);
            s.lines().any(|l| l.strip_prefix("REPLAY-CLASS=") == Some(class))
        }
        Err(_) => false,
    }
}

/// Reads the property id out of a replay file.
pub fn replay_property(path: &Path) -> Option<String> {
    let s = std::fs::read_to_string(path).ok()?;
    let v: Value = serde_json::from_str(&s).ok()?;
    v["property"].as_str().map(|s| s.to_string())
}

fn replay(prop: &Arc<dyn Property>, path: &Path, verify_only: bool) -> i32 {
    let s = match std::fs::read_to_string(path) {
        Ok(s) => s,
        Err(e) => {
            println!("HARNESS-ERROR cannot read replay {}: {e}", path.display());
            return 2;
        }
    };
    let v: Value = serde_json::from_str(&s).expect("replay json");
    let seed = v["seed"].as_u64().unwrap_or(0);
    let case = v["case"].clone();
    let out = run_isolated(prop, seed, &case, true);
    if let Some(e) = out.harness_error {
        println!("HARNESS-ERROR {e}");
        return 2;
    }
    if !verify_only {
        for (i, h) in out.history.iter().enumerate() {
            println!("{i:5} {h}");
        }
    }
    match out.violation {
        Some(viol) => {
            println!("REPLAY-CLASS={}", viol.class);
            if !verify_only {
                println!(
                    "VIOLATION property={} replay={} class={} at={} :: {}",
                    prop.id(),
                    path.display(),
                    viol.class,
                    viol.at,
                    viol.detail
                );
            }
            1
        }
        None => {
            println!("REPLAY-CLASS=");
            println!("replay: no violation");
            0
        }
    }
}

pub fn parse_args(argv: &[String]) -> Result<Args, String> {
    if argv.is_empty() {
        return Err("usage: verif-sim <property-id|replay> [--tier quick|thorough] [--seed N] [--runs N] [--jobs N] [--replay FILE]".into());
    }
    let mut a = Args {
        id: argv[0].clone(),
        tier: match std::env::var("VERIF_TIER").ok().as_deref() {
            Some("thorough") => Tier::Thorough,
            _ => Tier::Quick,
        },
        seed: std::env::var("VERIF_SEED")
            .ok()
            .and_then(|s| s.parse::<u64>().ok())
            .unwrap_or(DEFAULT_SEED),
        runs: None,
        jobs: std::env::var("VERIF_JOBS")
            .ok()
            .and_then(|s| s.parse().ok())
            .unwrap_or_else(|| std::thread::available_parallelism().map(|n| n.get()).unwrap_or(8)),
        replay: None,
        replay_verify: None,
        hashes: false,
        no_evidence: false,
        dump_case: None,
    };
    let mut i = 1;
    while i < argv.len() {
        let need = |i: usize| -> Result<&String, String> {
            argv.get(i + 1).ok_or_else(|| format!("missing value for {}", argv[i]))
        };
        match argv[i].as_str() {
            "--tier" => {
                a.tier = match need(i)?.as_str() {
                    "quick" => Tier::Quick,
                    "thorough" => Tier::Thorough,
                    o => return Err(format!("bad tier {o}")),
                };
                i += 1;
            }
            "--seed" => {
                a.seed = need(i)?.parse().map_err(|e| format!("bad seed: {e}"))?;
                i += 1;
            }
            "--runs" => {
                a.runs = Some(need(i)?.parse().map_err(|e| format!("bad runs: {e}"))?);
                i += 1;
            }
            "--jobs" => {
                a.jobs = need(i)?.parse().map_err(|e| format!("bad jobs: {e}"))?;
                i += 1;
            }
            "--replay" => {
                a.replay = Some(PathBuf::from(need(i)?));
                i += 1;
            }
            "--replay-verify" => {
                a.replay_verify = Some(PathBuf::from(need(i)?));
                i += 1;
            }
            "--hashes" => a.hashes = true,
            "--no-evidence" => a.no_evidence = true,
            "--dump-case" => {
                a.dump_case = Some(need(i)?.parse().map_err(|e| format!("bad run seed: {e}"))?);
                i += 1;
            }
            o => return Err(format!("unknown argument {o}")),
        }
        i += 1;
    }
    Ok(a)
}
