//! Simulated I/O seams: DNS resolver (more in sibling modules).

use std::{
    net::{Ipv4Addr, Ipv6Addr},
    sync::{Arc, Mutex},
    time::Duration,
};

use iroh_dns::dns::{BoxIter, DnsError, Resolver, TxtRecordData};
use n0_error::e;
use n0_future::boxed::BoxFuture;
use serde::{Deserialize, Serialize};
use tokio::time::Instant;

/// What a scripted lookup does.
#[derive(Clone, Debug, Serialize, Deserialize, PartialEq)]
pub enum LookupResult {
    /// Answers with `n` unique addresses / records.
    Ok(u8),
    /// Fails with a resolver error.
    Err,
    /// Never answers (the caller's timeout must fire).
    Hang,
}

#[derive(Clone, Debug, Serialize, Deserialize)]
pub struct LookupPlan {
    pub delay_ms: u64,
    pub result: LookupResult,
}

#[derive(Clone, Copy, Debug, PartialEq, Eq, Hash, PartialOrd, Ord, Serialize, Deserialize)]
pub enum Fam {
    V4,
    V6,
    Txt,
}

#[derive(Clone, Debug)]
pub struct CallLog {
    pub fam: Fam,
    /// Per-family call index.
    pub idx: usize,
    pub host: String,
    pub start_ms: u64,
    pub start_ns: u128,
}

#[derive(Debug, Default)]
pub struct ResolverState {
    pub calls: Vec<CallLog>,
    pub cache_clears: u32,
    pub resets: u32,
}

/// Scripted resolver: the k-th call of a family follows plan[k] (the last plan repeats).
#[derive(Debug, Clone)]
pub struct SimResolver {
    pub v4: Arc<Vec<LookupPlan>>,
    pub v6: Arc<Vec<LookupPlan>>,
    pub txt: Arc<Vec<LookupPlan>>,
    /// TXT payload generator: (call idx, item idx) -> character strings
    pub txt_payload: fn(usize, u8) -> Vec<String>,
    pub state: Arc<Mutex<ResolverState>>,
    pub t0: Instant,
}

impl SimResolver {
    pub fn new(v4: Vec<LookupPlan>, v6: Vec<LookupPlan>, txt: Vec<LookupPlan>) -> Self {
        SimResolver {
            v4: Arc::new(v4),
            v6: Arc::new(v6),
            txt: Arc::new(txt),
            txt_payload: default_txt,
            state: Default::default(),
            t0: Instant::now(),
        }
    }

    fn begin(&self, fam: Fam, host: String) -> (usize, LookupPlan) {
        let mut st = self.state.lock().unwrap();
        let idx = st.calls.iter().filter(|c| c.fam == fam).count();
        let el = self.t0.elapsed();
        st.calls.push(CallLog {
            fam,
            idx,
            host,
            start_ms: el.as_millis() as u64,
            start_ns: el.as_nanos(),
        });
        let plans = match fam {
            Fam::V4 => &self.v4,
            Fam::V6 => &self.v6,
            Fam::Txt => &self.txt,
        };
        let plan = if plans.is_empty() {
            LookupPlan {
                delay_ms: 0,
                result: LookupResult::Err,
            }
        } else {
            plans[idx.min(plans.len() - 1)].clone()
        };
        (idx, plan)
    }
}

pub fn default_txt(k: usize, j: u8) -> Vec<String> {
    vec![format!("relay=https://r{k}-{j}.example./")]
}

pub fn v4_addr(call: usize, item: u8) -> Ipv4Addr {
    Ipv4Addr::new(10, 4, call as u8, item)
}

pub fn v6_addr(call: usize, item: u8) -> Ipv6Addr {
    Ipv6Addr::new(0x2001, 0xdb8, 0, 0, 0, 6, call as u16, item as u16)
}

async fn wait_plan(plan: &LookupPlan) -> Result<u8, DnsError> {
    tokio::time::sleep(Duration::from_millis(plan.delay_ms)).await;
    match plan.result {
        LookupResult::Ok(n) => Ok(n),
        LookupResult::Err => {
            super::fault_fired("dns_lookup_error");
            Err(e!(DnsError::InvalidResponse))
        }
        LookupResult::Hang => {
            super::fault_fired("dns_lookup_never_answers");
            std::future::pending::<()>().await;
            unreachable!()
        }
    }
}

impl Resolver for SimResolver {
    fn lookup_ipv4(&self, host: String) -> BoxFuture<Result<BoxIter<Ipv4Addr>, DnsError>> {
        let (idx, plan) = self.begin(Fam::V4, host);
        Box::pin(async move {
            let n = wait_plan(&plan).await?;
            let v: Vec<Ipv4Addr> = (0..n).map(|j| v4_addr(idx, j)).collect();
            let it: BoxIter<Ipv4Addr> = Box::new(v.into_iter());
            Ok(it)
        })
    }

    fn lookup_ipv6(&self, host: String) -> BoxFuture<Result<BoxIter<Ipv6Addr>, DnsError>> {
        let (idx, plan) = self.begin(Fam::V6, host);
        Box::pin(async move {
            let n = wait_plan(&plan).await?;
            let v: Vec<Ipv6Addr> = (0..n).map(|j| v6_addr(idx, j)).collect();
            let it: BoxIter<Ipv6Addr> = Box::new(v.into_iter());
            Ok(it)
        })
    }

    fn lookup_txt(&self, host: String) -> BoxFuture<Result<BoxIter<TxtRecordData>, DnsError>> {
        let (idx, plan) = self.begin(Fam::Txt, host);
        let payload = self.txt_payload;
        Box::pin(async move {
            let n = wait_plan(&plan).await?;
            let v: Vec<TxtRecordData> = (0..n)
                .map(|j| {
                    let strings: Vec<Box<[u8]>> = payload(idx, j)
                        .into_iter()
                        .map(|s| s.into_bytes().into_boxed_slice())
                        .collect();
                    TxtRecordData::from(strings)
                })
                .collect();
            let it: BoxIter<TxtRecordData> = Box::new(v.into_iter());
            Ok(it)
        })
    }

    fn clear_cache(&self) {
        self.state.lock().unwrap().cache_clears += 1;
    }

    fn reset(&self) -> Box<dyn Resolver> {
        self.state.lock().unwrap().resets += 1;
        Box::new(self.clone())
    }
}
