//! Entropy seam: the binary exports `getrandom`, shadowing libc's. std (`RandomState` keys, hence
//! HashMap/HashSet iteration order), `getrandom` 0.2/0.3/0.4 (hence `rand::rng()`: QUIC connection
//! ids, ping payloads, jitter, mapped-address bits) resolve to it. While a simulated run is active on
//! the calling thread the bytes come from a stream seeded with the run seed; otherwise the real
//! syscall is made. `ring` issues the raw syscall itself and is not intercepted (opaque TLS bytes
//! only).

use std::cell::RefCell;

use super::rng::Rng;

thread_local! {
    static STREAM: RefCell<Option<Rng>> = const { RefCell::new(None) };
    static DRAWN: std::cell::Cell<u64> = const { std::cell::Cell::new(0) };
}

/// Activates the seeded entropy stream on this thread.
pub fn seed_thread(seed: u64) {
    STREAM.with(|s| *s.borrow_mut() = Some(Rng::new(seed ^ 0xE47_0B1E5)));
    DRAWN.with(|d| d.set(0));
}

pub fn clear_thread() {
    let _ = STREAM.try_with(|s| *s.borrow_mut() = None);
}

/// Bytes of entropy handed out on this thread since `seed_thread`.
pub fn drawn() -> u64 {
    DRAWN.with(|d| d.get())
}

#[unsafe(no_mangle)]
pub unsafe extern "C" fn getrandom(
    buf: *mut libc::c_void,
    buflen: libc::size_t,
    flags: libc::c_uint,
) -> libc::ssize_t {
    let served = STREAM
        .try_with(|s| {
            if let Ok(mut g) = s.try_borrow_mut() {
                if let Some(rng) = g.as_mut() {
                    let slice = unsafe { std::slice::from_raw_parts_mut(buf as *mut u8, buflen) };
                    rng.fill(slice);
                    return true;
                }
            }
            false
        })
        .unwrap_or(false);
    if served {
        let _ = DRAWN.try_with(|d| d.set(d.get() + buflen as u64));
        return buflen as libc::ssize_t;
    }
    unsafe { libc::syscall(libc::SYS_getrandom, buf, buflen, flags) as libc::ssize_t }
}
