//! E1: async discrete-event engine = tokio current_thread runtime, paused clock, seeded `select!`
//! order, LocalSet. Simulated time only advances when nothing is runnable (tokio auto-advance), so
//! every timer in the subject fires in virtual time.

use std::{future::Future, time::Duration};

use tokio::runtime::{Builder, RngSeed};

use super::{Ctx, Rng};

/// Runs `fut` to completion on a fresh paused current_thread runtime; records virtual time spent.
pub fn run_e1<F: Future>(seed: u64, io: bool, ctx: &Ctx, fut: F) -> F::Output {
    let mut b = Builder::new_current_thread();
    b.enable_time();
    if io {
        b.enable_io();
    }
    b.start_paused(true);
    b.rng_seed(RngSeed::from_bytes(&seed.to_le_bytes()));
    // Livelock breaker ("CPU time is not free"): virtual time normally advances only when nothing
    // is runnable. If tasks keep each other runnable without ever touching a timer (e.g. a
    // component re-waking itself until a deadline passes), the clock would stand still forever.
    // After LIVELOCK_POLLS consecutive task polls at one virtual instant the clock is charged 1 ms.
    {
        let ctx = ctx.clone();
        let state = std::sync::Mutex::new((None::<tokio::time::Instant>, 0u64));
        b.on_before_task_poll(move |_| {
            let now = tokio::time::Instant::now();
            let mut g = state.lock().unwrap();
            if g.0 == Some(now) {
                g.1 += 1;
                if g.1 >= LIVELOCK_POLLS {
                    g.1 = 0;
                    drop(g);
                    charge_clock(Duration::from_millis(1));
                    ctx.count("probe.busy_clock_charge");
                }
            } else {
                *g = (Some(now), 0);
            }
        });
    }
    let rt = b.build().expect("runtime");
    let local = tokio::task::LocalSet::new();
    let ctx2 = ctx.clone();
    let out = local.block_on(&rt, async move {
        let t0 = tokio::time::Instant::now();
        let out = fut.await;
        ctx2.set_sim_ns(t0.elapsed().as_nanos() as u64);
        out
    });
    // Drop order: LocalSet (cancels remaining local tasks) then runtime.
    ctx.freeze(true);
    drop(local);
    rt.shutdown_timeout(Duration::from_millis(0));
    ctx.freeze(false);
    out
}

pub const LIVELOCK_POLLS: u64 = 20_000;

/// Advances the paused tokio clock from synchronous code: the first poll of `time::advance`
/// moves the clock, the rest of that future (a yield) is not needed.
pub fn charge_clock(d: Duration) {
    let mut fut = std::pin::pin!(tokio::time::advance(d));
    let mut cx = std::task::Context::from_waker(std::task::Waker::noop());
    let _ = Future::poll(fut.as_mut(), &mut cx);
}

/// Lets everything a freshly bound endpoint started come to rest before the harness goes on.
/// netwatch reads /proc/net/route through tokio's blocking pool at bind; the instant that real
/// thread completes is outside the simulator's control. While a blocking task is in flight tokio
/// does not auto-advance the paused clock, so this sleep can only finish once it is done and all
/// other tasks are idle: the completion then never races runnable tasks of other endpoints.
pub async fn settle_after_bind() {
    tokio::time::sleep(Duration::from_millis(5)).await;
    yields(4).await;
}

/// Yields to the scheduler `n` times (lets every other ready task run `n` rounds).
pub async fn yields(n: u32) {
    for _ in 0..n {
        tokio::task::yield_now().await;
    }
}

/// A seeded perturbation between harness steps: nothing, a few yields, or a virtual-time advance.
pub async fn perturb(rng: &mut Rng, max_ms: u64) {
    match rng.below(4) {
        0 => {}
        1 => yields(1).await,
        2 => yields(rng.range(2, 8) as u32).await,
        _ => {
            let ms = rng.range(0, max_ms);
            tokio::time::sleep(Duration::from_millis(ms)).await
        }
    }
}

/// Lets the system go quiet: repeatedly yields and advances virtual time by `step` up to `total`.
pub async fn settle(total: Duration, step: Duration) {
    let mut left = total;
    yields(8).await;
    while left > Duration::ZERO {
        let d = step.min(left);
        tokio::time::sleep(d).await;
        yields(4).await;
        left -= d;
    }
}

pub fn now_ms(t0: tokio::time::Instant) -> u64 {
    t0.elapsed().as_millis() as u64
}

// ------------------------------------------------------------------------------------------
// E1 hook: implements the in-tree `iroh_base::verif::Hook` for single-threaded async runs.

use std::{
    collections::BTreeMap,
    sync::{Arc, Mutex},
};

use iroh_base::verif::{self, Hook};

pub type StubFn = Box<dyn Fn(&str, &str) -> Option<String> + Send + Sync>;

pub struct E1Hook {
    ctx: Ctx,
    rng: Mutex<Rng>,
    /// site -> max number of yields (a seeded number in 0..=max is drawn per visit)
    sites: BTreeMap<&'static str, u32>,
    pub stub: Mutex<Option<StubFn>>,
    /// wall clock = base + virtual elapsed + skew
    pub wall: Mutex<Option<(u64, tokio::time::Instant, i64)>>,
    pub log_events: bool,
    pub on_event: Mutex<Option<Box<dyn Fn(&str, &str) + Send + Sync>>>,
    /// called when the subject reaches a schedule point and is about to yield there
    pub on_yield: Mutex<Option<Box<dyn Fn(&str) + Send + Sync>>>,
    /// last value handed out for `pkarr.timestamp.now` (per-run monotonic clock)
    last_ts: Mutex<u64>,
    next_conn_id: Mutex<u64>,
}

pub struct HookGuard(pub Arc<E1Hook>);

impl Drop for HookGuard {
    fn drop(&mut self) {
        verif::install(None);
    }
}

impl E1Hook {
    pub fn install(ctx: &Ctx, seed: u64, sites: &[(&'static str, u32)]) -> HookGuard {
        let h = Arc::new(E1Hook {
            ctx: ctx.clone(),
            rng: Mutex::new(Rng::new(seed ^ 0xE1_400C)),
            sites: sites.iter().cloned().collect(),
            stub: Mutex::new(None),
            wall: Mutex::new(None),
            log_events: true,
            on_event: Mutex::new(None),
            on_yield: Mutex::new(None),
            last_ts: Mutex::new(0),
            next_conn_id: Mutex::new(0),
        });
        verif::install(Some(h.clone() as Arc<dyn Hook>));
        HookGuard(h)
    }
}

impl Hook for E1Hook {
    fn yields(&self, site: &'static str) -> u32 {
        match self.sites.get(site) {
            Some(max) if *max > 0 => {
                let n = self.rng.lock().unwrap().range(0, *max as u64) as u32;
                if n > 0 {
                    self.ctx.count("probe.apoint_yielded");
                    self.ctx.count("fault.schedule_point_yield");
                    if let Some(f) = self.on_yield.lock().unwrap().as_ref() {
                        f(site);
                    }
                }
                n
            }
            _ => 0,
        }
    }
    fn event(&self, site: &'static str, data: String) {
        if let Some(f) = self.on_event.lock().unwrap().as_ref() {
            f(site, &data);
            return;
        }
        if self.log_events {
            self.ctx.ev(format!("hook {site} {data}"));
        }
    }
    fn stub(&self, site: &'static str, arg: &str) -> Option<String> {
        if site == "relay.connection_id.next" {
            // per-run counter instead of the process-global one
            let mut n = self.next_conn_id.lock().unwrap();
            *n += 1;
            return Some((*n - 1).to_string());
        }
        if site == "pkarr.timestamp.now" {
            // strictly monotonic per run, driven by the simulated wall clock
            let wall = self.wall_clock_micros()?;
            let mut last = self.last_ts.lock().unwrap();
            let v = wall.max(*last + 1);
            *last = v;
            return Some(v.to_string());
        }
        self.stub.lock().unwrap().as_ref().and_then(|f| f(site, arg))
    }
    fn wall_clock_micros(&self) -> Option<u64> {
        let g = self.wall.lock().unwrap();
        g.map(|(base, t0, skew)| {
            let el = t0.elapsed().as_micros() as i128;
            (base as i128 + el + skew as i128).max(0) as u64
        })
    }
}
