//! E2: cooperative thread engine. Each logical caller runs on a real OS thread, but exactly one
//! thread runs between two intercepted synchronisation operations (the "baton"); all others are
//! parked on a condvar and the seeded PRNG picks who runs next. A held lock marks the caller
//! blocked; no runnable thread while some are blocked is a deadlock (reported, no wall-clock
//! timeout involved). The sequence of thread ids chosen is the schedule.

use std::{
    panic::{self, AssertUnwindSafe},
    sync::{Arc, Condvar, Mutex},
};

use iroh_base::verif::{self, Hook, SyncOp};

use super::{Ctx, Rng, driver};

#[derive(Clone, Copy, Debug, PartialEq, Eq)]
enum Status {
    NotStarted,
    Runnable,
    Blocked(usize),
    Finished,
}

struct State {
    status: Vec<Status>,
    current: usize,
    rng: Rng,
    schedule: Vec<u8>,
    deadlock: Option<String>,
    abort: bool,
    steps: u64,
    max_steps: u64,
    /// scripted wall clock readings (consumed in global call order); last one repeats + 1
    clock: Vec<u64>,
    clock_idx: usize,
    spurious_cas: bool,
    rand_bits: Option<u8>,
    addr_names: Vec<usize>,
    switches: u64,
}

pub struct Sched {
    st: Mutex<State>,
    cv: Condvar,
    ctx: Ctx,
    token: u64,
}

struct E2Abort;

thread_local! {
    static MY_ID: std::cell::Cell<usize> = const { std::cell::Cell::new(usize::MAX) };
}

pub struct E2Opts {
    pub clock: Vec<u64>,
    pub spurious_cas: bool,
    pub max_steps: u64,
    /// shrink overridden random byte strings to this many bits of entropy
    pub rand_bits: Option<u8>,
}

impl Default for E2Opts {
    fn default() -> Self {
        E2Opts {
            clock: vec![],
            spurious_cas: false,
            max_steps: 100_000,
            rand_bits: None,
        }
    }
}

#[derive(Debug)]
pub struct E2Result {
    pub deadlock: Option<String>,
    pub schedule: Vec<u8>,
    pub steps: u64,
    pub switches: u64,
    pub panics: Vec<(String, String)>,
}

impl Sched {
    fn me() -> usize {
        MY_ID.with(|m| m.get())
    }

    fn addr_name(st: &mut State, addr: usize) -> usize {
        if let Some(i) = st.addr_names.iter().position(|a| *a == addr) {
            i
        } else {
            st.addr_names.push(addr);
            st.addr_names.len() - 1
        }
    }

    /// Picks the next thread to run among the runnable ones; returns None if there is none.
    fn pick(st: &mut State) -> Option<usize> {
        let runnable: Vec<usize> = st
            .status
            .iter()
            .enumerate()
            .filter(|(_, s)| matches!(s, Status::Runnable | Status::NotStarted))
            .map(|(i, _)| i)
            .collect();
        if runnable.is_empty() {
            return None;
        }
        let n = runnable[st.rng.usize_below(runnable.len())];
        st.schedule.push(n as u8);
        Some(n)
    }

    fn describe_deadlock(st: &mut State) -> String {
        let mut parts = vec![];
        for i in 0..st.status.len() {
            if let Status::Blocked(a) = st.status[i] {
                let n = Self::addr_name(st, a);
                parts.push(format!("thread {i} waits for lock L{n}"));
            }
        }
        parts.join("; ")
    }

    fn wait_for_baton<'a>(&'a self, mut g: std::sync::MutexGuard<'a, State>, me: usize) {
        while g.current != me && !g.abort {
            g = self.cv.wait(g).unwrap();
        }
        if g.abort {
            drop(g);
            panic::resume_unwind(Box::new(E2Abort));
        }
    }

    /// A schedule point reached by the running thread.
    fn switch(&self, what: &str) {
        let me = Self::me();
        if me == usize::MAX {
            return;
        }
        let mut g = self.st.lock().unwrap();
        if g.abort {
            drop(g);
            panic::resume_unwind(Box::new(E2Abort));
        }
        g.steps += 1;
        if g.steps > g.max_steps {
            g.deadlock = Some(format!("step budget exceeded at {what}"));
            g.abort = true;
            self.cv.notify_all();
            drop(g);
            panic::resume_unwind(Box::new(E2Abort));
        }
        let next = Self::pick(&mut g).expect("running thread is runnable");
        if next != me {
            g.switches += 1;
            g.current = next;
            self.cv.notify_all();
            self.wait_for_baton(g, me);
        }
    }

    fn finish(&self, me: usize) {
        let mut g = self.st.lock().unwrap();
        g.status[me] = Status::Finished;
        if g.abort {
            return;
        }
        match Self::pick(&mut g) {
            Some(n) => {
                g.current = n;
                self.cv.notify_all();
            }
            None => {
                if g.status.iter().any(|s| matches!(s, Status::Blocked(_))) {
                    let d = Self::describe_deadlock(&mut g);
                    g.deadlock = Some(d);
                    g.abort = true;
                }
                g.current = usize::MAX;
                self.cv.notify_all();
            }
        }
    }
}

impl Hook for Sched {
    fn point(&self, site: &'static str) {
        self.switch(site);
    }

    fn event(&self, site: &'static str, data: String) {
        let me = Self::me();
        self.ctx.ev(format!("t{me} {site} {data}"));
    }

    fn wall_clock_micros(&self) -> Option<u64> {
        let mut g = self.st.lock().unwrap();
        if g.clock.is_empty() {
            return None;
        }
        let i = g.clock_idx;
        g.clock_idx += 1;
        let v = if i < g.clock.len() {
            g.clock[i]
        } else {
            g.clock[g.clock.len() - 1] + (i - g.clock.len() + 1) as u64
        };
        Some(v)
    }

    fn rand_override(&self, _site: &'static str, buf: &mut [u8]) {
        let mut g = self.st.lock().unwrap();
        if let Some(bits) = g.rand_bits {
            let v = g.rng.below(1u64 << bits);
            for b in buf.iter_mut() {
                *b = 0;
            }
            if let Some(last) = buf.last_mut() {
                *last = v as u8;
            }
        }
    }

    fn sync_active(&self) -> bool {
        Self::me() != usize::MAX
    }

    fn sync_before(&self, op: SyncOp, addr: usize) {
        let _ = (op, addr);
        self.switch("sync");
    }

    fn sync_blocked(&self, addr: usize) {
        let me = Self::me();
        let mut g = self.st.lock().unwrap();
        if g.abort {
            drop(g);
            panic::resume_unwind(Box::new(E2Abort));
        }
        g.status[me] = Status::Blocked(addr);
        match Self::pick(&mut g) {
            Some(n) => {
                g.switches += 1;
                g.current = n;
                self.cv.notify_all();
                self.wait_for_baton(g, me);
            }
            None => {
                let d = Self::describe_deadlock(&mut g);
                g.deadlock = Some(d);
                g.abort = true;
                g.current = usize::MAX;
                self.cv.notify_all();
                drop(g);
                panic::resume_unwind(Box::new(E2Abort));
            }
        }
    }

    fn sync_released(&self, addr: usize) {
        let mut g = self.st.lock().unwrap();
        for s in g.status.iter_mut() {
            if *s == Status::Blocked(addr) {
                *s = Status::Runnable;
            }
        }
    }

    fn cas_spurious_fail(&self, _addr: usize) -> bool {
        let mut g = self.st.lock().unwrap();
        g.spurious_cas && g.rng.chance(1, 6)
    }
}

pub type Body = Box<dyn FnOnce() + Send + 'static>;

/// Runs the bodies as cooperative threads under a seeded schedule.
pub fn run_threads(seed: u64, ctx: &Ctx, bodies: Vec<Body>, opts: E2Opts) -> E2Result {
    static TOKENS: std::sync::atomic::AtomicU64 = std::sync::atomic::AtomicU64::new(1);
    let token = TOKENS.fetch_add(1, std::sync::atomic::Ordering::Relaxed);
    let n = bodies.len();
    let sched = Arc::new(Sched {
        st: Mutex::new(State {
            status: vec![Status::NotStarted; n],
            current: usize::MAX,
            rng: Rng::new(seed ^ 0xE2E2),
            schedule: vec![],
            deadlock: None,
            abort: false,
            steps: 0,
            max_steps: opts.max_steps,
            clock: opts.clock,
            clock_idx: 0,
            spurious_cas: opts.spurious_cas,
            rand_bits: opts.rand_bits,
            addr_names: vec![],
            switches: 0,
        }),
        cv: Condvar::new(),
        ctx: ctx.clone(),
        token,
    });
    let mut handles = vec![];
    for (i, body) in bodies.into_iter().enumerate() {
        let sched = sched.clone();
        let seed_i = seed ^ (i as u64 + 1).wrapping_mul(0x9E37_79B9);
        handles.push(
            std::thread::Builder::new()
                .name(format!("e2-{i}"))
                .spawn(move || {
                    super::entropy::seed_thread(seed_i);
                    MY_ID.with(|m| m.set(i));
                    driver::RUN_TOKEN.with(|t| t.set(sched.token));
                    verif::install(Some(sched.clone() as Arc<dyn Hook>));
                    // wait for the baton
                    {
                        let mut g = sched.st.lock().unwrap();
                        while g.current != i && !g.abort {
                            g = sched.cv.wait(g).unwrap();
                        }
                        if g.abort {
                            g.status[i] = Status::Finished;
                            return;
                        }
                        g.status[i] = Status::Runnable;
                    }
                    let _ = panic::catch_unwind(AssertUnwindSafe(body));
                    verif::install(None);
                    sched.finish(i);
                    super::entropy::clear_thread();
                })
                .expect("spawn e2 thread"),
        );
    }
    // hand out the first baton
    {
        let mut g = sched.st.lock().unwrap();
        let first = Sched::pick(&mut g).expect("at least one thread");
        g.current = first;
        sched.cv.notify_all();
    }
    for h in handles {
        let _ = h.join();
    }
    let panics = driver::take_global_panics(token);
    let g = sched.st.lock().unwrap();
    E2Result {
        deadlock: g.deadlock.clone(),
        schedule: g.schedule.clone(),
        steps: g.steps,
        switches: g.switches,
        panics,
    }
}
