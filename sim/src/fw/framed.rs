//! `SimFramed`: in-memory message pipe standing in for a WebSocket-over-TCP connection below
//! iroh-relay's public `BytesStreamSink` seam. Reliable, ordered (it models TCP); faults are
//! errors/EOF between frames, back-pressure (client not reading), and arbitrary adversarial frames.
//! Every frame the server hands to the sink is stamped with the run's global event sequence number
//! at the instant of `start_send`.

use std::{
    collections::VecDeque,
    pin::Pin,
    sync::{
        Arc, Mutex,
        atomic::{AtomicU64, Ordering},
    },
    task::{Context, Poll, Waker},
};

use bytes::Bytes;
use iroh_relay::ExportKeyingMaterial;
use n0_error::AnyError;
use n0_future::{Sink, Stream};

/// Global event sequence of one run.
#[derive(Clone, Debug, Default)]
pub struct Seq(pub Arc<AtomicU64>);

impl Seq {
    pub fn next(&self) -> u64 {
        self.0.fetch_add(1, Ordering::SeqCst)
    }
    pub fn peek(&self) -> u64 {
        self.0.load(Ordering::SeqCst)
    }
}

#[derive(Debug)]
pub enum InItem {
    Frame(Bytes),
    Error,
    Eof,
}

#[derive(Debug, Default)]
pub struct PipeState {
    pub inbound: VecDeque<InItem>,
    pub in_waker: Option<Waker>,
    pub eof_sent: bool,
    /// frames the server sent: (global seq, bytes)
    pub outbound: Vec<(u64, Bytes)>,
    /// frames not yet "read" by the simulated client (only grows while `reading == false`)
    pub unread: usize,
    pub reading: bool,
    pub out_capacity: usize,
    /// where back-pressure bites when the client does not read: false = `poll_ready` (the frame is
    /// not accepted yet), true = `poll_flush` (like a websocket sink over TCP: the frame is already
    /// in the sink's write buffer when the flush stalls)
    pub stall_at_flush: bool,
    pub out_waker: Option<Waker>,
    pub flushes: u64,
    /// fail the n-th `start_send` from now (0 = next)
    pub fail_send_in: Option<u64>,
    pub sends: u64,
    pub server_dropped: bool,
    pub server_dropped_seq: Option<u64>,
    pub sink_closed: bool,
    /// a well-behaved client: answers every relay Ping (frame type 9) with a Pong at once
    pub auto_pong: bool,
}

#[derive(Debug)]
pub struct SimFramed {
    st: Arc<Mutex<PipeState>>,
    seq: Seq,
    /// keying material this end would export (None = no TLS)
    pub keying: Option<[u8; 32]>,
}

#[derive(Debug, Clone)]
pub struct ClientEnd {
    pub st: Arc<Mutex<PipeState>>,
}

pub fn pipe(seq: &Seq, out_capacity: usize) -> (SimFramed, ClientEnd) {
    let st = Arc::new(Mutex::new(PipeState {
        reading: true,
        auto_pong: true,
        out_capacity: out_capacity.max(1),
        ..Default::default()
    }));
    (
        SimFramed {
            st: st.clone(),
            seq: seq.clone(),
            keying: None,
        },
        ClientEnd { st },
    )
}

impl ClientEnd {
    pub fn send(&self, frame: Bytes) {
        let mut g = self.st.lock().unwrap();
        if g.eof_sent {
            return;
        }
        g.inbound.push_back(InItem::Frame(frame));
        if let Some(w) = g.in_waker.take() {
            w.wake();
        }
    }
    pub fn close(&self) {
        let mut g = self.st.lock().unwrap();
        if g.eof_sent {
            return;
        }
        g.eof_sent = true;
        g.inbound.push_back(InItem::Eof);
        if let Some(w) = g.in_waker.take() {
            w.wake();
        }
    }
    pub fn error(&self) {
        let mut g = self.st.lock().unwrap();
        if g.eof_sent {
            return;
        }
        g.eof_sent = true;
        g.inbound.push_back(InItem::Error);
        if let Some(w) = g.in_waker.take() {
            w.wake();
        }
    }
    pub fn set_stall_at_flush(&self, on: bool) {
        self.st.lock().unwrap().stall_at_flush = on;
    }
    pub fn set_reading(&self, reading: bool) {
        let mut g = self.st.lock().unwrap();
        g.reading = reading;
        if reading {
            g.unread = 0;
            if let Some(w) = g.out_waker.take() {
                w.wake();
            }
        }
    }
    pub fn fail_send_in(&self, n: u64) {
        self.st.lock().unwrap().fail_send_in = Some(n);
    }
    pub fn server_dropped(&self) -> bool {
        self.st.lock().unwrap().server_dropped
    }
    pub fn server_dropped_seq(&self) -> Option<u64> {
        self.st.lock().unwrap().server_dropped_seq
    }
    pub fn received(&self) -> Vec<(u64, Bytes)> {
        self.st.lock().unwrap().outbound.clone()
    }
    pub fn received_from(&self, from: usize) -> Vec<(u64, Bytes)> {
        let g = self.st.lock().unwrap();
        g.outbound[from.min(g.outbound.len())..].to_vec()
    }
    pub fn received_len(&self) -> usize {
        self.st.lock().unwrap().outbound.len()
    }
    pub fn pending_inbound(&self) -> usize {
        self.st.lock().unwrap().inbound.len()
    }
}

impl Drop for SimFramed {
    fn drop(&mut self) {
        let s = self.seq.next();
        let mut g = self.st.lock().unwrap();
        g.server_dropped = true;
        g.server_dropped_seq = Some(s);
    }
}

impl Stream for SimFramed {
    type Item = Result<Bytes, AnyError>;
    fn poll_next(self: Pin<&mut Self>, cx: &mut Context<'_>) -> Poll<Option<Self::Item>> {
        let mut g = self.st.lock().unwrap();
        match g.inbound.pop_front() {
            Some(InItem::Frame(b)) => Poll::Ready(Some(Ok(b))),
            Some(InItem::Error) => {
                g.inbound.push_front(InItem::Eof);
                Poll::Ready(Some(Err(AnyError::from_std(std::io::Error::other(
                    "sim: connection reset",
                )))))
            }
            Some(InItem::Eof) => {
                g.inbound.push_front(InItem::Eof);
                Poll::Ready(None)
            }
            None => {
                g.in_waker = Some(cx.waker().clone());
                Poll::Pending
            }
        }
    }
}

impl Sink<Bytes> for SimFramed {
    type Error = AnyError;

    fn poll_ready(self: Pin<&mut Self>, cx: &mut Context<'_>) -> Poll<Result<(), AnyError>> {
        let mut g = self.st.lock().unwrap();
        let limit = if g.stall_at_flush { g.out_capacity * 4 } else { g.out_capacity };
        if !g.reading && g.unread >= limit {
            g.out_waker = Some(cx.waker().clone());
            return Poll::Pending;
        }
        Poll::Ready(Ok(()))
    }

    fn start_send(self: Pin<&mut Self>, item: Bytes) -> Result<(), AnyError> {
        let s = self.seq.next();
        let mut g = self.st.lock().unwrap();
        if let Some(n) = g.fail_send_in {
            if n == 0 {
                g.fail_send_in = None;
                return Err(AnyError::from_std(std::io::Error::other("sim: write failed")));
            }
            g.fail_send_in = Some(n - 1);
        }
        g.sends += 1;
        if !g.reading {
            g.unread += 1;
        }
        if g.auto_pong && !g.eof_sent && item.len() == 9 && item[0] == 9 {
            let mut pong = item.to_vec();
            pong[0] = 10;
            g.inbound.push_back(InItem::Frame(Bytes::from(pong)));
            if let Some(w) = g.in_waker.take() {
                w.wake();
            }
        }
        g.outbound.push((s, item));
        Ok(())
    }

    fn poll_flush(self: Pin<&mut Self>, cx: &mut Context<'_>) -> Poll<Result<(), AnyError>> {
        let mut g = self.st.lock().unwrap();
        g.flushes += 1;
        if g.stall_at_flush && !g.reading && g.unread >= g.out_capacity {
            g.out_waker = Some(cx.waker().clone());
            return Poll::Pending;
        }
        Poll::Ready(Ok(()))
    }

    fn poll_close(self: Pin<&mut Self>, _cx: &mut Context<'_>) -> Poll<Result<(), AnyError>> {
        self.st.lock().unwrap().sink_closed = true;
        Poll::Ready(Ok(()))
    }
}

impl ExportKeyingMaterial for SimFramed {
    fn export_keying_material<T: AsMut<[u8]>>(
        &self,
        mut output: T,
        label: &[u8],
        context: Option<&[u8]>,
    ) -> Option<T> {
        let secret = self.keying?;
        // deterministic PRF stand-in: blake3 keyed by the "TLS master secret", over label|context
        let mut h = blake3::Hasher::new_keyed(&secret);
        h.update(&(label.len() as u64).to_le_bytes());
        h.update(label);
        if let Some(c) = context {
            h.update(&[1]);
            h.update(&(c.len() as u64).to_le_bytes());
            h.update(c);
        } else {
            h.update(&[0]);
        }
        let out = output.as_mut();
        h.finalize_xof().fill(out);
        Some(output)
    }
}

// ------------------------------------------------------------------------------------------
// Duplex message pipe: two ends, each a `BytesStreamSink + ExportKeyingMaterial`; every frame is
// recorded on a tap. Faults: close or error after the k-th frame in a direction.

#[derive(Debug, Default)]
pub struct Chan {
    pub q: VecDeque<Bytes>,
    pub waker: Option<Waker>,
    pub closed: bool,
    pub errored: bool,
    pub error_delivered: bool,
    pub sent: u64,
    /// after this many frames have been sent in this direction: close (Some(false)) or error (Some(true))
    pub cut_after: Option<(u64, bool)>,
}

#[derive(Debug, Default)]
pub struct Tap {
    /// (direction: 0 = a->b, 1 = b->a, frame)
    pub frames: Vec<(u8, Bytes)>,
}

#[derive(Debug)]
pub struct DuplexEnd {
    dir: u8,
    rx: Arc<Mutex<Chan>>,
    tx: Arc<Mutex<Chan>>,
    tap: Arc<Mutex<Tap>>,
    pub keying: Option<[u8; 32]>,
}

pub fn duplex() -> (DuplexEnd, DuplexEnd, Arc<Mutex<Tap>>) {
    let ab: Arc<Mutex<Chan>> = Default::default();
    let ba: Arc<Mutex<Chan>> = Default::default();
    let tap: Arc<Mutex<Tap>> = Default::default();
    (
        DuplexEnd { dir: 0, rx: ba.clone(), tx: ab.clone(), tap: tap.clone(), keying: None },
        DuplexEnd { dir: 1, rx: ab, tx: ba, tap: tap.clone(), keying: None },
        tap,
    )
}

impl DuplexEnd {
    pub fn tx_chan(&self) -> Arc<Mutex<Chan>> {
        self.tx.clone()
    }
    pub fn rx_chan(&self) -> Arc<Mutex<Chan>> {
        self.rx.clone()
    }
}

impl Drop for DuplexEnd {
    fn drop(&mut self) {
        let mut g = self.tx.lock().unwrap();
        g.closed = true;
        if let Some(w) = g.waker.take() {
            w.wake();
        }
    }
}

impl Stream for DuplexEnd {
    type Item = Result<Bytes, AnyError>;
    fn poll_next(self: Pin<&mut Self>, cx: &mut Context<'_>) -> Poll<Option<Self::Item>> {
        let mut g = self.rx.lock().unwrap();
        if let Some(b) = g.q.pop_front() {
            return Poll::Ready(Some(Ok(b)));
        }
        if g.errored && !g.error_delivered {
            g.error_delivered = true;
            return Poll::Ready(Some(Err(AnyError::from_std(std::io::Error::other("sim: connection reset")))));
        }
        if g.closed || g.errored {
            return Poll::Ready(None);
        }
        g.waker = Some(cx.waker().clone());
        Poll::Pending
    }
}

impl Sink<Bytes> for DuplexEnd {
    type Error = AnyError;
    fn poll_ready(self: Pin<&mut Self>, _cx: &mut Context<'_>) -> Poll<Result<(), AnyError>> {
        let g = self.tx.lock().unwrap();
        if g.closed || g.errored {
            return Poll::Ready(Err(AnyError::from_std(std::io::Error::other("sim: broken pipe"))));
        }
        Poll::Ready(Ok(()))
    }
    fn start_send(self: Pin<&mut Self>, item: Bytes) -> Result<(), AnyError> {
        let mut g = self.tx.lock().unwrap();
        if g.closed || g.errored {
            return Err(AnyError::from_std(std::io::Error::other("sim: broken pipe")));
        }
        self.tap.lock().unwrap().frames.push((self.dir, item.clone()));
        g.q.push_back(item);
        g.sent += 1;
        if let Some((k, err)) = g.cut_after {
            if g.sent >= k {
                if err { g.errored = true } else { g.closed = true }
            }
        }
        if let Some(w) = g.waker.take() {
            w.wake();
        }
        Ok(())
    }
    fn poll_flush(self: Pin<&mut Self>, _cx: &mut Context<'_>) -> Poll<Result<(), AnyError>> {
        Poll::Ready(Ok(()))
    }
    fn poll_close(self: Pin<&mut Self>, _cx: &mut Context<'_>) -> Poll<Result<(), AnyError>> {
        let mut g = self.tx.lock().unwrap();
        g.closed = true;
        if let Some(w) = g.waker.take() {
            w.wake();
        }
        Poll::Ready(Ok(()))
    }
}

fn prf(secret: &[u8; 32], label: &[u8], context: Option<&[u8]>, out: &mut [u8]) {
    let mut h = blake3::Hasher::new_keyed(secret);
    h.update(&(label.len() as u64).to_le_bytes());
    h.update(label);
    if let Some(c) = context {
        h.update(&[1]);
        h.update(&(c.len() as u64).to_le_bytes());
        h.update(c);
    } else {
        h.update(&[0]);
    }
    h.finalize_xof().fill(out);
}

/// The PRF used by the simulated TLS exporter (so that the harness can recompute material).
pub fn sim_export(secret: &[u8; 32], label: &[u8], context: Option<&[u8]>) -> [u8; 32] {
    let mut out = [0u8; 32];
    prf(secret, label, context, &mut out);
    out
}

impl ExportKeyingMaterial for DuplexEnd {
    fn export_keying_material<T: AsMut<[u8]>>(
        &self,
        mut output: T,
        label: &[u8],
        context: Option<&[u8]>,
    ) -> Option<T> {
        let secret = self.keying?;
        prf(&secret, label, context, output.as_mut());
        Some(output)
    }
}

/// Variable-length variant of [`sim_export`].
pub fn sim_export_n(secret: &[u8; 32], label: &[u8], context: Option<&[u8]>, n: usize) -> Vec<u8> {
    let mut out = vec![0u8; n];
    prf(secret, label, context, &mut out);
    out
}
