//! Simulation framework: seeded PRNG, entropy seam, run isolation, batch driver, minimisation,
//! replay files, evidence and known-findings handling.

pub mod bytepipe;
pub mod driver;
pub mod e2;
pub mod entropy;
pub mod framed;
pub mod rng;
pub mod rt;
pub mod simdisk;
pub mod simio;
pub mod simnet;

use std::{
    collections::BTreeMap,
    sync::{Arc, Mutex},
};

pub use rng::Rng;
use serde::{Serialize, de::DeserializeOwned};
use serde_json::Value;

#[derive(Clone, Copy, Debug, PartialEq, Eq)]
pub enum Tier {
    Quick,
    Thorough,
}

impl Tier {
    pub fn as_str(&self) -> &'static str {
        match self {
            Tier::Quick => "quick",
            Tier::Thorough => "thorough",
        }
    }
}

#[derive(Clone, Debug)]
pub struct Violation {
    /// Stable signature: violation class + the specific input shape / call site / history pattern.
    pub class: String,
    pub detail: String,
    /// History index at which it was detected.
    pub at: usize,
}

#[derive(Default, Debug)]
pub struct CtxInner {
    pub history: Vec<String>,
    pub counters: BTreeMap<String, u64>,
    pub violation: Option<Violation>,
    pub nontrivial: bool,
    pub sim_ns: u64,
    pub hasher: u64,
    pub keep_history: bool,
    pub frozen: bool,
}

/// Per-run recorder shared by the harness actors of one run.
#[derive(Clone, Debug, Default)]
pub struct Ctx(pub Arc<Mutex<CtxInner>>);

impl Ctx {
    pub fn new(keep_history: bool) -> Self {
        let c = Ctx::default();
        {
            let mut g = c.0.lock().unwrap();
            g.keep_history = keep_history;
            g.hasher = 0xcbf2_9ce4_8422_2325;
        }
        c
    }

    /// Appends an observable event to the history (global sequence = index).
    pub fn ev(&self, s: impl AsRef<str>) -> usize {
        let mut g = self.0.lock().unwrap();
        if g.frozen {
            return g.history.len();
        }
        let s = s.as_ref();
        let mut h = g.hasher;
        for b in s.as_bytes() {
            h ^= *b as u64;
            h = h.wrapping_mul(0x0000_0100_0000_01B3);
        }
        h ^= 0xff;
        h = h.wrapping_mul(0x0000_0100_0000_01B3);
        g.hasher = h;
        let idx = g.history.len();
        if g.keep_history || g.history.len() < 4096 {
            g.history.push(s.to_string());
        }
        idx
    }

    /// While frozen, events are not recorded. Used around runtime teardown: tokio drops the
    /// remaining tasks in an order that depends on process-global task ids, so anything their
    /// destructors report is not part of the (deterministic) simulated history.
    pub fn freeze(&self, on: bool) {
        self.0.lock().unwrap().frozen = on;
    }

    pub fn count(&self, name: &str) {
        self.add(name, 1);
    }

    pub fn add(&self, name: &str, n: u64) {
        let mut g = self.0.lock().unwrap();
        *g.counters.entry(name.to_string()).or_insert(0) += n;
    }

    pub fn nontrivial(&self) {
        self.0.lock().unwrap().nontrivial = true;
    }

    pub fn set_sim_ns(&self, ns: u64) {
        let mut g = self.0.lock().unwrap();
        if ns > g.sim_ns {
            g.sim_ns = ns;
        }
    }

    /// Records the first violation of the run.
    pub fn violate(&self, class: impl Into<String>, detail: impl Into<String>) {
        let mut g = self.0.lock().unwrap();
        if g.violation.is_none() {
            let at = g.history.len();
            g.violation = Some(Violation {
                class: class.into(),
                detail: detail.into(),
                at,
            });
        }
    }

    pub fn violated(&self) -> bool {
        self.0.lock().unwrap().violation.is_some()
    }

    pub fn history_len(&self) -> usize {
        self.0.lock().unwrap().history.len()
    }

    pub fn history(&self) -> Vec<String> {
        self.0.lock().unwrap().history.clone()
    }
}

/// Result of one simulated run.
#[derive(Debug, Clone)]
pub struct Outcome {
    pub violation: Option<Violation>,
    pub hash: u64,
    pub nontrivial: bool,
    pub sim_ns: u64,
    pub counters: BTreeMap<String, u64>,
    pub history: Vec<String>,
    /// Harness-side failure (bug in the simulator, not in the subject) -> exit 2.
    pub harness_error: Option<String>,
}

thread_local! {
    static CURRENT: std::cell::RefCell<Option<Ctx>> = const { std::cell::RefCell::new(None) };
}

/// Makes `ctx` the recorder that seams without their own handle (resolver, lookup services,
/// connectors) report fired faults to. Set by the driver on the run's thread.
pub fn set_current(ctx: Option<Ctx>) {
    CURRENT.with(|c| *c.borrow_mut() = ctx);
}

/// Counts a fault that actually fired (`fault.<kind>` in evidence) on the current run's thread.
pub fn fault_fired(kind: &str) {
    CURRENT.with(|c| {
        if let Some(ctx) = c.borrow().as_ref() {
            ctx.count(&format!("fault.{kind}"));
        }
    });
}

/// Object-safe property interface used by the driver.
pub trait Property: Send + Sync + 'static {
    fn id(&self) -> &'static str;
    /// "exploration" | "fault_enumeration"
    fn level(&self) -> &'static str {
        "exploration"
    }
    fn engine(&self) -> &'static str {
        "E1"
    }
    /// How cases are generated and what makes one non-trivial / distinct.
    fn rule(&self) -> String;
    fn assumptions(&self) -> Vec<String>;
    /// Which components ran real code and which a stub.
    fn real_vs_stub(&self) -> Value;
    fn runs(&self, tier: Tier) -> u64;
    /// Derives the explicit case (swarm configuration + script + faults) from the run seed.
    fn generate(&self, seed: u64, tier: Tier) -> Value;
    /// Executes the explicit case. Called on a fresh OS thread with the entropy stream seeded.
    fn execute(&self, case: &Value, ctx: &Ctx);
    /// Simpler candidate cases for minimisation.
    fn shrink(&self, _case: &Value) -> Vec<Value> {
        Vec::new()
    }
    /// Per-run wall-clock watchdog.
    fn wall_cap_s(&self) -> u64 {
        20
    }
    /// Upper bound on parallel workers (Some(1) when the subject has process-global state).
    fn max_jobs(&self) -> Option<usize> {
        None
    }
}

/// Typed convenience layer over [`Property`].
pub trait Typed: Send + Sync + 'static {
    type Case: Serialize + DeserializeOwned + Clone;
    fn gen_case(&self, rng: &mut Rng, tier: Tier) -> Self::Case;
    fn exec_case(&self, case: &Self::Case, ctx: &Ctx);
    fn shrink_case(&self, _case: &Self::Case) -> Vec<Self::Case> {
        Vec::new()
    }
}

pub fn typed_generate<T: Typed>(t: &T, seed: u64, tier: Tier) -> Value {
    let mut rng = Rng::new(seed);
    serde_json::to_value(t.gen_case(&mut rng, tier)).expect("case serialises")
}

pub fn typed_execute<T: Typed>(t: &T, case: &Value, ctx: &Ctx) {
    let c: T::Case = serde_json::from_value(case.clone()).expect("case deserialises");
    t.exec_case(&c, ctx)
}

pub fn typed_shrink<T: Typed>(t: &T, case: &Value) -> Vec<Value> {
    let c: T::Case = match serde_json::from_value(case.clone()) {
        Ok(c) => c,
        Err(_) => return vec![],
    };
    t.shrink_case(&c)
        .into_iter()
        .map(|c| serde_json::to_value(c).unwrap())
        .collect()
}

/// Generic list shrinker: candidates with one chunk removed (halves, quarters, ..., single items).
pub fn shrink_vec<T: Clone>(xs: &[T]) -> Vec<Vec<T>> {
    let mut out = Vec::new();
    let n = xs.len();
    if n == 0 {
        return out;
    }
    let mut chunk = n.div_ceil(2);
    loop {
        let mut start = 0;
        while start < n {
            let end = (start + chunk).min(n);
            let mut v = Vec::with_capacity(n - (end - start));
            v.extend_from_slice(&xs[..start]);
            v.extend_from_slice(&xs[end..]);
            out.push(v);
            start = end;
        }
        if chunk == 1 {
            break;
        }
        chunk = chunk.div_ceil(2);
        if out.len() > 64 {
            break;
        }
    }
    out
}
