//! verif-sim: deterministic simulation with fault injection for n0-computer/iroh.
#![allow(dead_code)]
//! See /verif/DESIGN.md.

mod fw;
mod props;

use fw::driver;

fn main() {
    // debugging aid only (never set by registered commands): VERIF_TRACE=<env-filter> prints the subject's tracing output
    if let Ok(f) = std::env::var("VERIF_TRACE") {
        let _ = tracing_subscriber::fmt().with_env_filter(f).with_writer(std::io::stderr).try_init();
    }
    let argv: Vec<String> = std::env::args().skip(1).collect();
    let args = match driver::parse_args(&argv) {
        Ok(a) => a,
        Err(e) => {
            eprintln!("{e}");
            std::process::exit(2);
        }
    };
    let id = if args.id == "replay" {
        let p = args.replay.clone().or(args.replay_verify.clone());
        match p.as_deref().and_then(driver::replay_property) {
            Some(id) => id,
            None => {
                eprintln!("replay: cannot determine property from file");
                std::process::exit(2);
            }
        }
    } else {
        args.id.clone()
    };
    if id == "list" {
        for p in props::all() {
            println!("{} {} {}", p.id(), p.engine(), p.level());
        }
        return;
    }
    let Some(prop) = props::by_id(&id) else {
        eprintln!("unknown property {id}");
        std::process::exit(2);
    };
    let code = driver::main_for(prop, &args);
    std::process::exit(code);
}
