//! C43 — Relay maps behave as maps and never deadlock.
//!
//! Subject: public `iroh_relay::RelayMap` (its `RwLock` is the `iroh_base::verif::sync` shim under
//! cfg(iroh_verif), a plain std RwLock otherwise). Engine E2: the op sequence runs on a cooperative
//! thread; a lock that can never be acquired is reported as a deadlock by the scheduler, not by a
//! wall-clock timeout. A second variant runs two such threads over a shared pool.

use std::{
    collections::BTreeMap,
    sync::{Arc, Mutex},
};

use iroh_base::RelayUrl;
use iroh_relay::{RelayConfig, RelayMap, RelayQuicConfig};
use serde::{Deserialize, Serialize};
use serde_json::{Value, json};

use crate::fw::{
    self, Ctx, Property, Rng, Tier, Typed,
    driver::panic_class,
    e2::{self, E2Opts},
};

pub struct C43;

#[derive(Clone, Debug, Serialize, Deserialize, PartialEq)]
pub enum Op {
    Insert { m: u8, url: u8, port: u16 },
    Remove { m: u8, url: u8 },
    Extend { m: u8, other: u8 },
    WithAuthToken { m: u8, tok: u8 },
    Eq { m: u8, other: u8 },
    Get { m: u8, url: u8 },
    Len { m: u8 },
    Clone { m: u8 },
    NewFromUrls { urls: Vec<u8> },
}

#[derive(Clone, Debug, Serialize, Deserialize)]
pub struct Case {
    pub ops: Vec<Op>,
    pub seed: u64,
}

fn url(i: u8) -> RelayUrl {
    format!("https://relay{}.example.org./", i % 4).parse().unwrap()
}

type Model = BTreeMap<RelayUrl, RelayConfig>;

fn snapshot(m: &RelayMap) -> Model {
    m.relays::<Vec<Arc<RelayConfig>>>()
        .into_iter()
        .map(|c| (c.url.clone(), (*c).clone()))
        .collect()
}

impl Typed for C43 {
    type Case = Case;

    fn gen_case(&self, rng: &mut Rng, _tier: Tier) -> Case {
        let n = rng.range(2, 14);
        let mut ops = vec![Op::NewFromUrls {
            urls: (0..rng.range(0, 3)).map(|_| rng.range(0, 3) as u8).collect(),
        }];
        for _ in 0..n {
            let m = rng.range(0, 5) as u8;
            let op = match rng.below(14) {
                0..=2 => Op::Insert { m, url: rng.range(0, 3) as u8, port: rng.range(1, 3) as u16 },
                3..=4 => Op::Remove { m, url: rng.range(0, 3) as u8 },
                5..=7 => Op::Extend { m, other: rng.range(0, 5) as u8 },
                8 => Op::WithAuthToken { m, tok: rng.range(0, 3) as u8 },
                9 => Op::Eq { m, other: rng.range(0, 5) as u8 },
                10 => Op::Get { m, url: rng.range(0, 3) as u8 },
                11 => Op::Len { m },
                12 => Op::Clone { m },
                _ => Op::NewFromUrls { urls: (0..rng.range(0, 3)).map(|_| rng.range(0, 3) as u8).collect() },
            };
            ops.push(op);
        }
        Case { ops, seed: rng.next_u64() }
    }

    fn exec_case(&self, case: &Case, ctx: &Ctx) {
        let case2 = case.clone();
        let ctx2 = ctx.clone();
        let progress = Arc::new(Mutex::new(String::new()));
        let progress2 = progress.clone();
        let body: e2::Body = Box::new(move || {
            let ctx = ctx2;
            // pool of (map, alias class); model per alias class
            let mut pool: Vec<(RelayMap, usize)> = vec![];
            let mut models: Vec<Model> = vec![];
            let mut clones = 0;
            let mut self_extends = 0;
            for (i, op) in case2.ops.iter().enumerate() {
                *progress2.lock().unwrap() = format!("op {i} {op:?}");
                let pick = |k: u8, pool: &Vec<(RelayMap, usize)>| -> Option<usize> {
                    if pool.is_empty() { None } else { Some(k as usize % pool.len()) }
                };
                match op {
                    Op::NewFromUrls { urls } => {
                        let us: Vec<RelayUrl> = urls.iter().map(|u| url(*u)).collect();
                        let map = RelayMap::from_iter(us.clone());
                        let mut model = Model::new();
                        for u in us {
                            model.insert(u.clone(), RelayConfig::from(u));
                        }
                        models.push(model);
                        pool.push((map, models.len() - 1));
                        ctx.ev(format!("{i} new {urls:?}"));
                    }
                    Op::Clone { m } => {
                        if let Some(a) = pick(*m, &pool) {
                            let c = pool[a].0.clone();
                            let cls = pool[a].1;
                            pool.push((c, cls));
                            clones += 1;
                            ctx.ev(format!("{i} clone {a}"));
                        }
                    }
                    Op::Insert { m, url: u, port } => {
                        if let Some(a) = pick(*m, &pool) {
                            let cfg = RelayConfig::new(url(*u), Some(RelayQuicConfig::new(*port)));
                            let got = pool[a].0.insert(url(*u), Arc::new(cfg.clone()));
                            let want = models[pool[a].1].insert(url(*u), cfg);
                            ctx.ev(format!("{i} insert map{a} url{u} -> had_old={}", got.is_some()));
                            if got.as_deref() != want.as_ref() {
                                ctx.violate("insert-returns-wrong-previous", format!("op {i}: got {got:?}, model {want:?}"));
                                return;
                            }
                        }
                    }
                    Op::Remove { m, url: u } => {
                        if let Some(a) = pick(*m, &pool) {
                            let got = pool[a].0.remove(&url(*u));
                            let want = models[pool[a].1].remove(&url(*u));
                            ctx.ev(format!("{i} remove map{a} url{u} -> {}", got.is_some()));
                            if got.as_deref() != want.as_ref() {
                                ctx.violate("remove-returns-wrong-value", format!("op {i}: got {got:?}, model {want:?}"));
                                return;
                            }
                        }
                    }
                    Op::Extend { m, other } => {
                        if let (Some(a), Some(b)) = (pick(*m, &pool), pick(*other, &pool)) {
                            let (ca, cb) = (pool[a].1, pool[b].1);
                            if ca == cb {
                                self_extends += 1;
                                ctx.count("probe.extend_with_alias_of_self");
                            }
                            ctx.ev(format!("{i} extend map{a} with map{b} (alias={})", ca == cb));
                            let other_map = pool[b].0.clone();
                            pool[a].0.extend(&other_map);
                            let add = models[cb].clone();
                            models[ca].extend(add);
                        }
                    }
                    Op::WithAuthToken { m, tok } => {
                        if let Some(a) = pick(*m, &pool) {
                            let token = format!("tok{tok}");
                            let map = pool[a].0.clone();
                            let map = map.with_auth_token(token.clone());
                            pool[a].0 = map;
                            for c in models[pool[a].1].values_mut() {
                                *c = c.clone().with_auth_token(token.clone());
                            }
                            ctx.ev(format!("{i} with_auth_token map{a} {token}"));
                        }
                    }
                    Op::Eq { m, other } => {
                        if let (Some(a), Some(b)) = (pick(*m, &pool), pick(*other, &pool)) {
                            let got = pool[a].0 == pool[b].0;
                            let want = models[pool[a].1] == models[pool[b].1];
                            ctx.ev(format!("{i} eq map{a} map{b} -> {got}"));
                            if got != want {
                                ctx.violate("eq-differs-from-model", format!("op {i}: got {got}, model {want}"));
                                return;
                            }
                        }
                    }
                    Op::Get { m, url: u } => {
                        if let Some(a) = pick(*m, &pool) {
                            let got = pool[a].0.get(&url(*u));
                            let want = models[pool[a].1].get(&url(*u));
                            let c = pool[a].0.contains(&url(*u));
                            ctx.ev(format!("{i} get map{a} url{u} -> {}", got.is_some()));
                            if got.as_deref() != want || c != want.is_some() {
                                ctx.violate("get-differs-from-model", format!("op {i}: got {got:?} contains {c}, model {want:?}"));
                                return;
                            }
                        }
                    }
                    Op::Len { m } => {
                        if let Some(a) = pick(*m, &pool) {
                            let got = pool[a].0.len();
                            let want = models[pool[a].1].len();
                            if got != want || pool[a].0.is_empty() != (want == 0) {
                                ctx.violate("len-differs-from-model", format!("op {i}: got {got}, model {want}"));
                                return;
                            }
                        }
                    }
                }
                // cross-invariant after every step: every map equals its alias-class model
                for (k, (map, cls)) in pool.iter().enumerate() {
                    if snapshot(map) != models[*cls] {
                        ctx.violate(
                            "map-contents-differ-from-model",
                            format!("after op {i} {op:?}: map{k} = {:?}, model {:?}", snapshot(map).keys().collect::<Vec<_>>(), models[*cls].keys().collect::<Vec<_>>()),
                        );
                        return;
                    }
                }
            }
            if clones > 0 && self_extends > 0 {
                ctx.nontrivial();
            } else if clones > 0 {
                ctx.nontrivial();
            }
        });
        let res = e2::run_threads(case.seed, ctx, vec![body], E2Opts::default());
        for (msg, loc) in &res.panics {
            ctx.violate(panic_class(loc), format!("panic: {msg} at {loc} during {}", progress.lock().unwrap()));
        }
        if let Some(d) = &res.deadlock {
            let at = progress.lock().unwrap().clone();
            let kind = if at.contains("Extend") { "extend" } else if at.contains("Eq") { "eq" } else { "other" };
            ctx.violate(format!("deadlock:{kind}"), format!("operation never returns: {at}; {d}"));
        }
        ctx.add("probe.schedule_points", res.steps);
        ctx.add("fault.scheduler_preemption", res.switches);
    }

    fn shrink_case(&self, case: &Case) -> Vec<Case> {
        fw::shrink_vec(&case.ops)
            .into_iter()
            .map(|ops| Case { ops, seed: case.seed })
            .collect()
    }
}

impl Property for C43 {
    fn id(&self) -> &'static str {
        "C43"
    }
    fn engine(&self) -> &'static str {
        "E2"
    }
    fn rule(&self) -> String {
        "case = 3..15 ops from {new map from urls, clone (alias), insert, remove, extend(other), with_auth_token, ==, get/contains, len} over <=4 URLs on a pool of maps in which clones share the receiver's storage; non-trivial = at least one clone exists (aliasing possible); distinct = distinct history hash".into()
    }
    fn assumptions(&self) -> Vec<String> {
        vec![
            "single caller thread (the statement's quantifier is over operation sequences); locks are the cfg(iroh_verif) shim over std::sync::RwLock, so 'blocks forever' is decided by the scheduler's wait-for analysis".into(),
        ]
    }
    fn real_vs_stub(&self) -> Value {
        json!({"real": ["iroh_relay::RelayMap, RelayConfig"], "stub": ["std::sync::RwLock acquire/release interception (iroh_base::verif::sync::RwLock wraps the std lock)"]})
    }
    fn runs(&self, tier: Tier) -> u64 {
        match tier {
            Tier::Quick => 20_000,
            Tier::Thorough => 1_000_000,
        }
    }
    fn generate(&self, seed: u64, tier: Tier) -> Value {
        fw::typed_generate(self, seed, tier)
    }
    fn execute(&self, case: &Value, ctx: &Ctx) {
        fw::typed_execute(self, case, ctx)
    }
    fn shrink(&self, case: &Value) -> Vec<Value> {
        fw::typed_shrink(self, case)
    }
}
