//! C33 — Pkarr timestamps are strictly increasing across threads.
//!
//! Subject: `iroh_dns::pkarr::Timestamp::now` with (cfg(iroh_verif)) the wall clock reading supplied
//! by the simulator and the `LAST_TIMESTAMP` atomic being the interceptable shim. Engine E2: 2..4
//! caller threads, schedule points at the atomic load and every CAS, spurious CAS failures.

use std::sync::{
    Arc, Mutex,
    atomic::{AtomicU64, Ordering},
};

use iroh_dns::pkarr::Timestamp;
use serde::{Deserialize, Serialize};
use serde_json::{Value, json};

use crate::fw::{
    self, Ctx, Property, Rng, Tier, Typed,
    driver::panic_class,
    e2::{self, E2Opts},
};

pub struct C33;

#[derive(Clone, Debug, Serialize, Deserialize)]
pub struct Case {
    /// calls per thread
    pub threads: Vec<u8>,
    /// wall clock readings relative to the run's base, consumed in global call order
    pub clock: Vec<u64>,
    pub spurious_cas: bool,
    pub seed: u64,
}

/// `LAST_TIMESTAMP` is a process-wide static: every run works in its own, strictly higher epoch
/// (so earlier runs can not influence it) and the property's runs are executed one at a time.
static RUN_EPOCH: AtomicU64 = AtomicU64::new(1);
const MID: u64 = 1 << 38;

impl Typed for C33 {
    type Case = Case;

    fn gen_case(&self, rng: &mut Rng, _tier: Tier) -> Case {
        let nt = rng.range(2, 4) as usize;
        let threads: Vec<u8> = (0..nt).map(|_| rng.range(1, 4) as u8).collect();
        let total: usize = threads.iter().map(|c| *c as usize).sum();
        let mut clock = vec![];
        let mut cur = MID;
        let pattern = rng.below(5);
        for _ in 0..total {
            cur = match pattern {
                0 => cur + rng.range(1, 1000),            // healthy clock
                1 => cur,                                  // stuck clock
                2 => cur.saturating_sub(rng.range(0, 5_000_000)).max(1), // stepping back
                3 => {
                    if rng.chance(1, 3) { cur.saturating_sub(rng.range(1, 1 << 30)).max(1) } else { cur + rng.range(0, 3) }
                }
                _ => match rng.below(4) {
                    0 => cur,
                    1 => cur + 1,
                    2 => cur.saturating_sub(1).max(1),
                    _ => cur + rng.range(0, 1 << 20),
                },
            };
            clock.push(cur);
        }
        Case { threads, clock, spurious_cas: rng.coin(), seed: rng.next_u64() }
    }

    fn exec_case(&self, case: &Case, ctx: &Ctx) {
        let epoch = RUN_EPOCH.fetch_add(1, Ordering::SeqCst);
        let base = epoch << 40;
        // (thread, call, invoke idx, return idx, value relative to base)
        let log: Arc<Mutex<Vec<(usize, usize, usize, usize, i128)>>> = Default::default();
        let mut bodies: Vec<e2::Body> = vec![];
        for (t, calls) in case.threads.iter().enumerate() {
            let ctx = ctx.clone();
            let log = log.clone();
            let calls = *calls;
            bodies.push(Box::new(move || {
                for k in 0..calls as usize {
                    let inv = ctx.ev(format!("t{t} call{k} invoke"));
                    let ts = Timestamp::now();
                    let rel = ts.as_micros() as i128 - base as i128;
                    let ret = ctx.ev(format!("t{t} call{k} return {rel}"));
                    log.lock().unwrap().push((t, k, inv, ret, rel));
                }
            }));
        }
        let opts = E2Opts {
            clock: case.clock.iter().map(|c| base + c).collect(),
            spurious_cas: case.spurious_cas,
            max_steps: 10_000,
            rand_bits: None,
        };
        let res = e2::run_threads(case.seed, ctx, bodies, opts);
        for (msg, loc) in &res.panics {
            ctx.violate(panic_class(loc), format!("panic: {msg} at {loc}"));
        }
        if let Some(d) = &res.deadlock {
            ctx.violate("no-progress", d.clone());
        }
        let log = log.lock().unwrap().clone();
        for (i, a) in log.iter().enumerate() {
            for b in log.iter().skip(i + 1) {
                if a.4 == b.4 {
                    ctx.violate(
                        "duplicate-timestamp",
                        format!("t{} call{} and t{} call{} both returned base+{}", a.0, a.1, b.0, b.1, a.4),
                    );
                    return;
                }
                // a returned before b was invoked => a < b (and vice versa)
                if a.3 < b.2 && a.4 >= b.4 {
                    ctx.violate(
                        "timestamp-not-greater-than-earlier-one",
                        format!("t{} call{} returned base+{} before t{} call{} was invoked, which returned base+{}", a.0, a.1, a.4, b.0, b.1, b.4),
                    );
                    return;
                }
                if b.3 < a.2 && b.4 >= a.4 {
                    ctx.violate(
                        "timestamp-not-greater-than-earlier-one",
                        format!("t{} call{} returned base+{} before t{} call{} was invoked, which returned base+{}", b.0, b.1, b.4, a.0, a.1, a.4),
                    );
                    return;
                }
            }
        }
        ctx.add("probe.thread_switches", res.switches);
        if res.switches >= 2 {
            ctx.nontrivial();
        }
        if case.clock.windows(2).any(|w| w[1] < w[0]) {
            ctx.count("fault.clock_stepped_back");
        }
        if case.clock.windows(2).any(|w| w[1] == w[0]) {
            ctx.count("fault.clock_stuck");
        }
        if case.spurious_cas {
            ctx.count("fault.spurious_cas_enabled");
        }
    }

    fn shrink_case(&self, case: &Case) -> Vec<Case> {
        let mut out = vec![];
        for (i, c) in case.threads.iter().enumerate() {
            if *c > 1 {
                let mut n = case.clone();
                n.threads[i] -= 1;
                out.push(n);
            }
        }
        if case.threads.len() > 2 {
            let mut n = case.clone();
            n.threads.pop();
            out.push(n);
        }
        if case.spurious_cas {
            let mut n = case.clone();
            n.spurious_cas = false;
            out.push(n);
        }
        out
    }
}

impl Property for C33 {
    fn id(&self) -> &'static str {
        "C33"
    }
    fn engine(&self) -> &'static str {
        "E2"
    }
    fn max_jobs(&self) -> Option<usize> {
        Some(1)
    }
    fn rule(&self) -> String {
        "case = (2..4 caller threads x 1..4 Timestamp::now() calls, a scripted wall clock per call: healthy / stuck / stepping back by up to seconds / large backward jumps / +-1 us jitter, spurious CAS failures on or off, seeded schedule with a switch point at every atomic load and CAS); non-trivial = at least two thread switches happened; distinct = distinct history hash (interleaving of invoke/return events and relative values)".into()
    }
    fn assumptions(&self) -> Vec<String> {
        vec![
            "one thread runs at a time, so executions are sequentially consistent: relaxed-memory reorderings of the Relaxed atomics are not explored".into(),
            "wall-clock readings near u64::MAX microseconds (year ~586000; `last + 1` would overflow) are not generated".into(),
            "LAST_TIMESTAMP is process-global: runs execute serially, each in a strictly higher epoch".into(),
        ]
    }
    fn real_vs_stub(&self) -> Value {
        json!({"real": ["iroh_dns::pkarr::Timestamp::now (CAS loop)"], "stub": ["wall clock (seam inside Timestamp::now)", "atomic interception shim around std AtomicU64"]})
    }
    fn runs(&self, tier: Tier) -> u64 {
        match tier {
            Tier::Quick => 20_000,
            Tier::Thorough => 1_000_000,
        }
    }
    fn generate(&self, seed: u64, tier: Tier) -> Value {
        fw::typed_generate(self, seed, tier)
    }
    fn execute(&self, case: &Value, ctx: &Ctx) {
        fw::typed_execute(self, case, ctx)
    }
    fn shrink(&self, case: &Value) -> Vec<Value> {
        fw::typed_shrink(self, case)
    }
}
