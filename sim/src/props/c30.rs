//! C30 — Every lookup service ends up with the latest published address data.
//!
//! Subject: `AddressLookupServices::{add, publish}` (publish through `iroh::verif::publish`, the
//! crate-private function the endpoint's actor calls). Engine E2: publisher threads and an adder
//! thread; the registry's RwLocks are the interceptable shim, and every service's `publish`
//! callback is itself a schedule point (it runs under the registry's read lock).

use std::{
    net::SocketAddr,
    sync::{Arc, Mutex},
};

use iroh::{
    address_lookup::{AddrFilter, AddressLookup, AddressLookupServices},
    endpoint_info::EndpointData,
};
use iroh_base::{RelayUrl, TransportAddr};
use serde::{Deserialize, Serialize};
use serde_json::{Value, json};

use crate::fw::{
    self, Ctx, Property, Rng, Tier, Typed,
    driver::panic_class,
    e2::{self, E2Opts},
};

pub struct C30;

#[derive(Clone, Debug, Serialize, Deserialize)]
pub struct Case {
    /// services registered before the race starts
    pub initial_services: u8,
    /// data published before the race starts (None = nothing published yet)
    pub initial_publish: bool,
    /// publisher threads: each publishes this many distinct data items
    pub publishers: Vec<u8>,
    /// adder threads: each adds one service
    pub adders: u8,
    pub relay_only_filter: bool,
    pub seed: u64,
}

#[derive(Debug, Clone)]
struct Recorder {
    name: String,
    log: Arc<Mutex<Vec<String>>>,
    ctx: Ctx,
}

fn describe(data: &EndpointData) -> String {
    let mut v: Vec<String> = data.addrs().map(|a| format!("{a:?}")).collect();
    v.sort();
    v.join(",")
}

impl AddressLookup for Recorder {
    fn publish(&self, data: &EndpointData) {
        iroh_base::verif::point("service.publish");
        let d = describe(data);
        self.ctx.ev(format!("{} given {}", self.name, d));
        self.log.lock().unwrap().push(d);
    }
}

fn data(k: u32) -> EndpointData {
    let relay: RelayUrl = format!("https://d{k}.example.org./").parse().unwrap();
    let ip: SocketAddr = format!("192.0.2.{}:{}", k % 250 + 1, 1000 + k).parse().unwrap();
    EndpointData::from_iter([TransportAddr::Relay(relay), TransportAddr::Ip(ip)])
}

impl Typed for C30 {
    type Case = Case;

    fn gen_case(&self, rng: &mut Rng, _tier: Tier) -> Case {
        let np = rng.range(1, 2) as usize;
        Case {
            initial_services: rng.range(0, 2) as u8,
            initial_publish: rng.coin(),
            publishers: (0..np).map(|_| rng.range(1, 2) as u8).collect(),
            adders: rng.range(if np == 1 { 1 } else { 0 }, 2) as u8,
            relay_only_filter: rng.chance(1, 3),
            seed: rng.next_u64(),
        }
    }

    fn exec_case(&self, case: &Case, ctx: &Ctx) {
        let services = AddressLookupServices::default();
        if case.relay_only_filter {
            services.set_addr_filter(AddrFilter::relay_only());
        }
        let mut recorders: Vec<Recorder> = vec![];
        for i in 0..case.initial_services {
            let r = Recorder { name: format!("svc{i}"), log: Default::default(), ctx: ctx.clone() };
            services.add(r.clone());
            recorders.push(r);
        }
        if case.initial_publish {
            iroh::verif::publish(&services, &data(0));
        }
        let added: Arc<Mutex<Vec<Recorder>>> = Default::default();
        let mut bodies: Vec<e2::Body> = vec![];
        let mut k = 1u32;
        for (p, n) in case.publishers.iter().enumerate() {
            let ks: Vec<u32> = (0..*n).map(|_| { let x = k; k += 1; x }).collect();
            let services = services.clone();
            let ctx = ctx.clone();
            bodies.push(Box::new(move || {
                for x in ks {
                    ctx.ev(format!("publisher{p} publish d{x} invoke"));
                    iroh::verif::publish(&services, &data(x));
                    ctx.ev(format!("publisher{p} publish d{x} return"));
                }
            }));
        }
        for a in 0..case.adders {
            let services = services.clone();
            let ctx = ctx.clone();
            let added = added.clone();
            bodies.push(Box::new(move || {
                let r = Recorder { name: format!("added{a}"), log: Default::default(), ctx: ctx.clone() };
                ctx.ev(format!("adder{a} add invoke"));
                services.add(r.clone());
                ctx.ev(format!("adder{a} add return"));
                added.lock().unwrap().push(r);
            }));
        }
        let res = e2::run_threads(case.seed, ctx, bodies, E2Opts::default());
        for (msg, loc) in &res.panics {
            ctx.violate(panic_class(loc), format!("panic: {msg} at {loc}"));
        }
        if let Some(d) = &res.deadlock {
            ctx.violate("deadlock", d.clone());
            return;
        }
        // what does the registry consider the latest data? a service added now is given it.
        let probe = Recorder { name: "probe".into(), log: Default::default(), ctx: ctx.clone() };
        services.add(probe.clone());
        let latest = probe.log.lock().unwrap().last().cloned();
        ctx.ev(format!("latest per registry: {latest:?}"));
        if case.relay_only_filter {
            if let Some(l) = &latest {
                if l.contains("Ip(") {
                    ctx.violate("filter-not-applied", format!("latest data {l} contains an IP address despite relay-only filter"));
                    return;
                }
            }
        }
        recorders.extend(added.lock().unwrap().iter().cloned());
        for r in &recorders {
            let last = r.log.lock().unwrap().last().cloned();
            if last != latest {
                let class = if r.name.starts_with("added") { "added-service-misses-latest-publish" } else { "services-disagree-on-latest-publish" };
                ctx.violate(
                    class,
                    format!("service {} was last given {last:?}, but the latest published data is {latest:?}", r.name),
                );
                return;
            }
            if case.relay_only_filter && r.log.lock().unwrap().iter().any(|d| d.contains("Ip(")) {
                ctx.violate("filter-not-applied", format!("service {} was given unfiltered data", r.name));
                return;
            }
        }
        ctx.add("probe.thread_switches", res.switches);
        ctx.add("fault.scheduler_preemption", res.switches);
        if res.switches >= 2 {
            ctx.nontrivial();
        }
    }

    fn shrink_case(&self, case: &Case) -> Vec<Case> {
        let mut out = vec![];
        if case.initial_services > 0 {
            let mut c = case.clone();
            c.initial_services -= 1;
            out.push(c);
        }
        if case.adders > 0 {
            let mut c = case.clone();
            c.adders -= 1;
            out.push(c);
        }
        if case.publishers.len() > 1 {
            let mut c = case.clone();
            c.publishers.pop();
            out.push(c);
        }
        for i in 0..case.publishers.len() {
            if case.publishers[i] > 1 {
                let mut c = case.clone();
                c.publishers[i] -= 1;
                out.push(c);
            }
        }
        if case.relay_only_filter {
            let mut c = case.clone();
            c.relay_only_filter = false;
            out.push(c);
        }
        if case.initial_publish {
            let mut c = case.clone();
            c.initial_publish = false;
            out.push(c);
        }
        out
    }
}

impl Property for C30 {
    fn id(&self) -> &'static str {
        "C30"
    }
    fn engine(&self) -> &'static str {
        "E2"
    }
    fn rule(&self) -> String {
        "case = (0..2 pre-registered services, optional earlier publish, 1..2 publisher threads x 1..2 publishes of distinct data, 0..2 adder threads, optional relay-only filter; seeded schedule with switch points at every registry lock operation and inside every service callback); non-trivial = >=2 thread switches; distinct = distinct history hash".into()
    }
    fn assumptions(&self) -> Vec<String> {
        vec!["'latest published data' is what the registry itself hands to a service added after all threads finished".into()]
    }
    fn real_vs_stub(&self) -> Value {
        json!({"real": ["AddressLookupServices::{add, add_boxed, publish, set_addr_filter}", "EndpointData::apply_filter"], "stub": ["lookup services (recording AddressLookup impls)", "caller threads", "RwLock acquire/release interception"]})
    }
    fn runs(&self, tier: Tier) -> u64 {
        match tier {
            Tier::Quick => 20_000,
            Tier::Thorough => 1_000_000,
        }
    }
    fn generate(&self, seed: u64, tier: Tier) -> Value {
        fw::typed_generate(self, seed, tier)
    }
    fn execute(&self, case: &Value, ctx: &Ctx) {
        fw::typed_execute(self, case, ctx)
    }
    fn shrink(&self, case: &Value) -> Vec<Value> {
        fw::typed_shrink(self, case)
    }
}
