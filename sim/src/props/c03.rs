//! C03 — Relay handshake admits an identity only with proof of its secret key.
//!
//! Subject: public `handshake::serverside` + `SuccessfulAuthentication::authorize_if` over an
//! in-memory duplex message pipe with a scriptable TLS exporter; honest clients run the real
//! `clientside` (cfg(iroh_verif) wrapper); adversarial clients are hand-written and own a store
//! of transcripts captured from honest sessions of the victim.

use std::time::Duration;

use bytes::{BufMut, Bytes, BytesMut};
use http::HeaderValue;
use iroh_base::SecretKey;
use iroh_relay::{
    protos::handshake::{self, Mechanism},
    server::Access,
};
use n0_future::{SinkExt, StreamExt};
use serde::{Deserialize, Serialize};
use serde_json::{Value, json};

use crate::fw::{
    self, Ctx, Property, Rng, Tier, Typed,
    framed::{duplex, sim_export},
    rt::run_e1,
};

pub struct C03;

const LABEL: &[u8] = b"iroh-relay handshake v1";
const DOMAIN_SEP_CHALLENGE: &str = "iroh-relay handshake v1 challenge signature";

#[derive(Clone, Debug, Serialize, Deserialize, PartialEq)]
pub enum Keying {
    Agree,
    Disagree,
    ServerNone,
    ClientNone,
    BothNone,
}

#[derive(Clone, Debug, Serialize, Deserialize, PartialEq)]
pub enum AdvHeader {
    None,
    Garbage,
    Truncated,
    OwnValid,
    CapturedVictim,
    VictimKeyOwnSignature,
    VictimKeyCapturedSignatureCurrentSuffix,
    VictimKeyZeroSignature,
}

#[derive(Clone, Debug, Serialize, Deserialize, PartialEq)]
pub enum AdvReply {
    OwnValid,
    VictimKeyOwnSignature,
    ReplayCapturedVictim,
    VictimKeySignatureOverRawChallenge,
    WrongFrameType,
    Garbage,
    Empty,
    Oversized,
    Close,
    TwoAuths,
    VictimKeyZeroSignature,
}

#[derive(Clone, Debug, Serialize, Deserialize)]
pub enum Client {
    Honest { send_header: bool },
    Adversary { header: AdvHeader, reply: AdvReply },
}

#[derive(Clone, Debug, Serialize, Deserialize)]
pub struct Session {
    pub keying: Keying,
    pub allow: bool,
    pub client: Client,
    /// cut (direction 0 = client->server, 1 = server->client) after k frames; error or clean close
    pub cut: Option<(u8, u64, bool)>,
}

#[derive(Clone, Debug, Serialize, Deserialize)]
pub struct Case {
    pub sessions: Vec<Session>,
    pub seed: u64,
}

fn enc_client_auth(pk: &[u8; 32], sig: &[u8; 64]) -> Bytes {
    let mut b = BytesMut::new();
    b.put_u8(1); // FrameType::ClientAuth
    b.put_slice(pk);
    b.put_u8(64);
    b.put_slice(sig);
    b.freeze()
}

fn enc_header(pk: &[u8; 32], sig: &[u8; 64], suffix: &[u8; 16]) -> String {
    let mut b = Vec::new();
    b.extend_from_slice(pk);
    b.push(64);
    b.extend_from_slice(sig);
    b.extend_from_slice(suffix);
    data_encoding::BASE64URL_NOPAD.encode(&b)
}

#[derive(Default)]
struct Captured {
    headers: Vec<String>,
    client_auths: Vec<Bytes>,
}

impl Typed for C03 {
    type Case = Case;

    fn gen_case(&self, rng: &mut Rng, _tier: Tier) -> Case {
        let n = rng.range(1, 5);
        let mut sessions = vec![];
        for i in 0..n {
            let keying = match rng.below(8) {
                0..=3 => Keying::Agree,
                4 => Keying::Disagree,
                5 => Keying::ServerNone,
                6 => Keying::ClientNone,
                _ => Keying::BothNone,
            };
            let honest = i == 0 || rng.chance(1, 3);
            let client = if honest {
                Client::Honest { send_header: rng.chance(3, 4) }
            } else {
                let header = match rng.below(8) {
                    0 => AdvHeader::None,
                    1 => AdvHeader::Garbage,
                    2 => AdvHeader::Truncated,
                    3 => AdvHeader::OwnValid,
                    4 => AdvHeader::CapturedVictim,
                    5 => AdvHeader::VictimKeyOwnSignature,
                    6 => AdvHeader::VictimKeyCapturedSignatureCurrentSuffix,
                    _ => AdvHeader::VictimKeyZeroSignature,
                };
                let reply = match rng.below(11) {
                    0 => AdvReply::OwnValid,
                    1 => AdvReply::VictimKeyOwnSignature,
                    2 => AdvReply::ReplayCapturedVictim,
                    3 => AdvReply::VictimKeySignatureOverRawChallenge,
                    4 => AdvReply::WrongFrameType,
                    5 => AdvReply::Garbage,
                    6 => AdvReply::Empty,
                    7 => AdvReply::Oversized,
                    8 => AdvReply::Close,
                    9 => AdvReply::TwoAuths,
                    _ => AdvReply::VictimKeyZeroSignature,
                };
                Client::Adversary { header, reply }
            };
            let cut = if rng.chance(1, 6) {
                Some((rng.range(0, 1) as u8, rng.range(0, 2), rng.coin()))
            } else {
                None
            };
            sessions.push(Session { keying, allow: rng.chance(4, 5), client, cut });
        }
        Case { sessions, seed: rng.next_u64() }
    }

    fn exec_case(&self, case: &Case, ctx: &Ctx) {
        let case = case.clone();
        let ctx2 = ctx.clone();
        run_e1(case.seed, false, ctx, async move {
            let ctx = ctx2;
            let victim = SecretKey::from_bytes(&[0x11; 32]);
            let adv = SecretKey::from_bytes(&[0x22; 32]);
            let vpk = *victim.public().as_bytes();
            let apk = *adv.public().as_bytes();
            let mut captured = Captured::default();
            let mut adversarial_sessions = 0;
            for (si, s) in case.sessions.iter().enumerate() {
                let (mut client_io, mut server_io, tap) = duplex();
                let s_secret = [0xA0 + si as u8; 32];
                let c_secret_other = [0x50 + si as u8; 32];
                let (sk, ck) = match s.keying {
                    Keying::Agree => (Some(s_secret), Some(s_secret)),
                    Keying::Disagree => (Some(s_secret), Some(c_secret_other)),
                    Keying::ServerNone => (None, Some(s_secret)),
                    Keying::ClientNone => (Some(s_secret), None),
                    Keying::BothNone => (None, None),
                };
                server_io.keying = sk;
                client_io.keying = ck;
                if let Some((dir, k, err)) = s.cut {
                    let ch = if dir == 0 { client_io.tx_chan() } else { server_io.tx_chan() };
                    let mut g = ch.lock().unwrap();
                    if k == 0 {
                        if err { g.errored = true } else { g.closed = true }
                    } else {
                        g.cut_after = Some((k, err));
                    }
                    ctx.count(if err { "fault.stream_error" } else { "fault.stream_close" });
                }
                // header
                let header: Option<String> = match &s.client {
                    Client::Honest { send_header } => {
                        if *send_header {
                            handshake::verif::client_auth_header(&victim, &client_io).map(|h| h.to_str().unwrap().to_string())
                        } else {
                            None
                        }
                    }
                    Client::Adversary { header, .. } => {
                        let material = ck.map(|c| sim_export(&c, LABEL, Some(&vpk)));
                        match header {
                            AdvHeader::None => None,
                            AdvHeader::Garbage => Some("!!not-base64!!".into()),
                            AdvHeader::Truncated => Some(enc_header(&vpk, &[7u8; 64], &[0u8; 16])[..40].to_string()),
                            AdvHeader::OwnValid => handshake::verif::client_auth_header(&adv, &client_io).map(|h| h.to_str().unwrap().to_string()),
                            AdvHeader::CapturedVictim => captured.headers.last().cloned(),
                            AdvHeader::VictimKeyOwnSignature => material.map(|m| {
                                let sig = adv.sign(&m[..16]).to_bytes();
                                enc_header(&vpk, &sig, m[16..].try_into().unwrap())
                            }),
                            AdvHeader::VictimKeyCapturedSignatureCurrentSuffix => match (material, captured.headers.last()) {
                                (Some(m), Some(h)) => {
                                    let raw = data_encoding::BASE64URL_NOPAD.decode(h.as_bytes()).unwrap();
                                    let sig: [u8; 64] = raw[33..97].try_into().unwrap();
                                    Some(enc_header(&vpk, &sig, m[16..].try_into().unwrap()))
                                }
                                _ => None,
                            },
                            AdvHeader::VictimKeyZeroSignature => material.map(|m| enc_header(&vpk, &[0u8; 64], m[16..].try_into().unwrap())),
                        }
                    }
                };
                let is_adv = matches!(s.client, Client::Adversary { .. });
                if is_adv {
                    adversarial_sessions += 1;
                }
                ctx.ev(format!("session {si} keying={:?} allow={} client={:?} cut={:?} header={}", s.keying, s.allow, s.client, s.cut, header.is_some()));
                let hv = header.as_ref().and_then(|h| HeaderValue::from_str(h).ok());
                let allow = s.allow;
                let server = async move {
                    let mut server_io = server_io;
                    let auth = handshake::serverside(&mut server_io, hv).await;
                    // dropping the stream at the end of this block closes the connection, like the
                    // real server does when the handshake task finishes
                    match auth {
                        Ok(a) => {
                            let key = a.client_key;
                            let mech = a.mechanism;
                            let access = if allow { Access::Allow } else { Access::Deny { reason: Some("sim-deny".into()) } };
                            let fin = a.authorize_if(access, &mut server_io).await;
                            (Some((key, mech)), fin.is_ok())
                        }
                        Err(_) => (None, false),
                    }
                };
                let client_kind = s.client.clone();
                let captured_auth = captured.client_auths.last().cloned();
                let victim_c = victim.clone();
                let adv_c = adv.clone();
                let client = async move {
                    let mut client_io = client_io;
                    let victim = victim_c;
                    let adv = adv_c;
                    match client_kind {
                        Client::Honest { .. } => {
                            let r = handshake::verif::clientside(&mut client_io, &victim).await;
                            match r {
                                Ok(()) => "ok".to_string(),
                                Err(handshake::Error::ServerDeniedAuth { reason, .. }) => format!("denied:{reason}"),
                                Err(e) => format!("err:{e}"),
                            }
                        }
                        Client::Adversary { reply, .. } => {
                            // wait for the first server frame
                            let first = client_io.next().await;
                            let Some(Ok(frame)) = first else { return "adv:no-frame".to_string() };
                            if frame.first() != Some(&0) {
                                // confirmed/denied straight away (header path)
                                return format!("adv:first-frame-type-{}", frame[0]);
                            }
                            let challenge: [u8; 16] = match frame[1..].try_into() { Ok(c) => c, Err(_) => return "adv:bad-challenge".into() };
                            let msg = blake3::derive_key(DOMAIN_SEP_CHALLENGE, &challenge);
                            let frames: Vec<Bytes> = match reply {
                                AdvReply::OwnValid => vec![enc_client_auth(&apk, &adv.sign(&msg).to_bytes())],
                                AdvReply::VictimKeyOwnSignature => vec![enc_client_auth(&vpk, &adv.sign(&msg).to_bytes())],
                                AdvReply::ReplayCapturedVictim => captured_auth.into_iter().collect(),
                                AdvReply::VictimKeySignatureOverRawChallenge => vec![enc_client_auth(&vpk, &adv.sign(&challenge).to_bytes())],
                                AdvReply::WrongFrameType => vec![Bytes::from_static(&[2])],
                                AdvReply::Garbage => vec![Bytes::from_static(&[1, 2, 3, 4, 5])],
                                AdvReply::Empty => vec![Bytes::new()],
                                AdvReply::Oversized => vec![Bytes::from(vec![1u8; 70_000])],
                                AdvReply::Close => vec![],
                                AdvReply::TwoAuths => vec![enc_client_auth(&vpk, &adv.sign(&msg).to_bytes()), enc_client_auth(&apk, &adv.sign(&msg).to_bytes())],
                                AdvReply::VictimKeyZeroSignature => vec![enc_client_auth(&vpk, &[0u8; 64])],
                            };
                            if frames.is_empty() {
                                let _ = client_io.close().await;
                                return "adv:closed".into();
                            }
                            for f in frames {
                                if client_io.send(f).await.is_err() {
                                    return "adv:send-failed".into();
                                }
                            }
                            match client_io.next().await {
                                Some(Ok(f)) => format!("adv:final-frame-type-{}", f.first().copied().unwrap_or(255)),
                                _ => "adv:no-final".into(),
                            }
                        }
                    }
                };
                let both = async { tokio::join!(server, client) };
                let out = tokio::time::timeout(Duration::from_secs(30), both).await;
                let Ok(((auth, admitted), client_res)) = out else {
                    ctx.violate("handshake-hangs", format!("session {si} did not finish within 30 virtual s"));
                    return;
                };
                ctx.ev(format!("session {si} server auth={:?} admitted={admitted} client={client_res}", auth.map(|a| (a.0 == victim.public(), a.1))));
                // capture transcript of honest sessions for later replay
                if !is_adv {
                    if let Some(h) = &header {
                        captured.headers.push(h.clone());
                    }
                    for (dir, f) in &tap.lock().unwrap().frames {
                        if *dir == 0 && f.first() == Some(&1) {
                            captured.client_auths.push(f.clone());
                        }
                    }
                }
                // ---- oracle ----
                if let Some((key, mech)) = auth {
                    if is_adv && key == victim.public() {
                        ctx.violate(
                            "authenticated-without-secret-key",
                            format!("session {si}: adversary {:?} was authenticated as the victim's endpoint id via {mech:?}", s.client),
                        );
                        return;
                    }
                    if is_adv && key != adv.public() {
                        ctx.violate("authenticated-as-unknown-key", format!("session {si}: key {key}"));
                        return;
                    }
                    if !is_adv {
                        if key != victim.public() {
                            ctx.violate("honest-client-authenticated-as-other-key", format!("session {si}: {key}"));
                            return;
                        }
                        let send_header = matches!(s.client, Client::Honest { send_header: true });
                        let want = if send_header && s.keying == Keying::Agree { Mechanism::SignedKeyMaterial } else { Mechanism::SignedChallenge };
                        if mech != want {
                            ctx.violate(
                                "wrong-authentication-mechanism",
                                format!("session {si}: keying {:?} header {send_header}: expected {want:?}, got {mech:?}", s.keying),
                            );
                            return;
                        }
                        if mech == Mechanism::SignedKeyMaterial {
                            ctx.count("probe.key_material_path");
                        } else {
                            ctx.count("probe.challenge_path");
                        }
                    }
                    if admitted && !s.allow {
                        ctx.violate("denied-client-admitted", format!("session {si}: policy denied but authorize_if returned Ok"));
                        return;
                    }
                    if !s.allow && !is_adv && s.cut.is_none() && !client_res.starts_with("denied:sim-deny") {
                        ctx.violate("denial-not-reported-to-client", format!("session {si}: client saw {client_res}"));
                        return;
                    }
                    if !s.allow {
                        ctx.count("probe.denied");
                    }
                } else if !is_adv && s.cut.is_none() {
                    ctx.violate(
                        "honest-client-not-authenticated",
                        format!("session {si}: keying {:?} client {:?}: server returned an error, client saw {client_res}", s.keying, s.client),
                    );
                    return;
                }
                if !is_adv && s.cut.is_none() && s.allow && (client_res != "ok" || !admitted) {
                    ctx.violate("honest-client-not-admitted", format!("session {si}: client saw {client_res}, admitted {admitted}"));
                    return;
                }
            }
            if adversarial_sessions > 0 && !captured.headers.is_empty() {
                ctx.nontrivial();
            } else if adversarial_sessions > 0 {
                ctx.nontrivial();
            }
        });
    }

    fn shrink_case(&self, case: &Case) -> Vec<Case> {
        let mut out = vec![];
        for s in fw::shrink_vec(&case.sessions) {
            if s.is_empty() {
                continue;
            }
            out.push(Case { sessions: s, seed: case.seed });
        }
        for i in 0..case.sessions.len() {
            if case.sessions[i].cut.is_some() {
                let mut c = case.clone();
                c.sessions[i].cut = None;
                out.push(c);
            }
            if case.sessions[i].keying != Keying::Agree {
                let mut c = case.clone();
                c.sessions[i].keying = Keying::Agree;
                out.push(c);
            }
        }
        out
    }
}

impl Property for C03 {
    fn id(&self) -> &'static str {
        "C03"
    }
    fn rule(&self) -> String {
        "case = 1..5 handshake sessions; each: TLS exporter agreement (agree/disagree/absent on either side), allow/deny policy, client = honest (real clientside, with/without key-material header) or adversary (8 header shapes x 11 reply shapes incl. transcripts captured from earlier honest sessions of the victim, signatures by the wrong key, zero signatures, wrong/garbage/empty/oversized frames, early close, two auth frames), optional stream cut after k frames; non-trivial = at least one adversarial session; distinct = distinct history hash".into()
    }
    fn assumptions(&self) -> Vec<String> {
        vec![
            "the TLS exporter is modelled as a keyed PRF per session secret; distinct sessions have distinct secrets (an adversary cannot force equal exporter output)".into(),
            "Ed25519 itself is trusted; the adversary can only produce signatures with keys it holds or replay captured ones".into(),
        ]
    }
    fn real_vs_stub(&self) -> Value {
        json!({"real": ["handshake::serverside", "SuccessfulAuthentication::authorize_if", "handshake::clientside (honest client)", "KeyMaterialClientAuth::{new, into_header_value, verify}", "ClientAuth::verify"], "stub": ["WebSocket/TLS stream (duplex message pipe with PRF exporter)", "adversarial client (hand-written encoder)", "entropy for the challenge (seeded)"]})
    }
    fn runs(&self, tier: Tier) -> u64 {
        match tier {
            Tier::Quick => 30_000,
            Tier::Thorough => 3_000_000,
        }
    }
    fn generate(&self, seed: u64, tier: Tier) -> Value {
        fw::typed_generate(self, seed, tier)
    }
    fn execute(&self, case: &Value, ctx: &Ctx) {
        fw::typed_execute(self, case, ctx)
    }
    fn shrink(&self, case: &Value) -> Vec<Value> {
        fw::typed_shrink(self, case)
    }
}
