//! C34 — Staggered DNS lookups never panic and return the first success.
//!
//! Subject: public `DnsResolver::lookup_{ipv4,ipv6,ipv4_ipv6}_staggered` (real `stagger_call`,
//! `add_jitter`, `Inner::op` with its per-attempt timeout) over a scripted `SimResolver` on the
//! virtual clock.

use std::time::Duration;

use iroh_dns::dns::{DnsError, DnsResolver};
use serde::{Deserialize, Serialize};
use serde_json::{Value, json};

use crate::fw::{
    self, Ctx, Property, Rng, Tier, Typed,
    rt::run_e1,
    simio::{Fam, LookupPlan, LookupResult, SimResolver, v4_addr, v6_addr},
};

pub struct C34;

#[derive(Clone, Debug, Serialize, Deserialize)]
pub struct Case {
    /// 0 = ipv4, 1 = ipv6, 2 = ipv4_ipv6
    pub api: u8,
    pub delays: Vec<u64>,
    pub timeout_ms: u64,
    pub v4: Vec<LookupPlan>,
    pub v6: Vec<LookupPlan>,
    pub cap_ms: u64,
    pub seed: u64,
}

const EDGE_DELAYS: &[u64] = &[
    0,
    1,
    2,
    3,
    4,
    5,
    7,
    10,
    50,
    100,
    200,
    250,
    300,
    1000,
    3000,
    10_000,
    100_000,
    u64::MAX,
    u64::MAX / 2,
    u64::MAX / 40,
    u64::MAX / 40 + 1,
    1 << 62,
    1 << 63,
];

fn gen_plans(rng: &mut Rng, n: usize, timeout_ms: u64) -> Vec<LookupPlan> {
    (0..n)
        .map(|_| {
            let result = match rng.below(10) {
                0..=3 => LookupResult::Ok(rng.range(0, 3) as u8),
                4..=7 => LookupResult::Err,
                _ => LookupResult::Hang,
            };
            let delay_ms = match rng.below(4) {
                0 => 0,
                1 => rng.range(0, timeout_ms),
                2 => rng.edgy(0, 2 * timeout_ms, &[timeout_ms - 1, timeout_ms, timeout_ms + 1]),
                _ => rng.range(0, 2 * timeout_ms),
            };
            LookupPlan { delay_ms, result }
        })
        .collect()
}

fn lower(d: u64) -> u64 {
    d.saturating_sub(d / 5).saturating_sub(1)
}
fn upper(d: u64) -> u64 {
    d.saturating_add(d / 5).saturating_add(1)
}

#[derive(Debug, Clone)]
struct Attempt {
    start: u64,
    done: u64,
    ok: Option<Vec<std::net::IpAddr>>,
    timeout: bool,
}

fn plan_outcome(start: u64, plan: &LookupPlan, timeout_ms: u64) -> (u64, Option<u8>, bool) {
    // (completion time, Some(n) when ok, timed out)
    match plan.result {
        LookupResult::Ok(n) if plan.delay_ms <= timeout_ms => (start + plan.delay_ms, Some(n), false),
        LookupResult::Err if plan.delay_ms <= timeout_ms => (start + plan.delay_ms, None, false),
        _ => (start + timeout_ms, None, true),
    }
}

impl Typed for C34 {
    type Case = Case;

    fn gen_case(&self, rng: &mut Rng, _tier: Tier) -> Case {
        let api = rng.below(3) as u8;
        let n = rng.range(0, 5) as usize;
        let delays: Vec<u64> = (0..n)
            .map(|_| {
                if rng.chance(3, 4) {
                    *rng.pick(EDGE_DELAYS)
                } else {
                    rng.range(0, 5000)
                }
            })
            .collect();
        let timeout_ms = *rng.pick(&[1u64, 5, 10, 100, 1000, 3000]);
        let v4 = gen_plans(rng, n + 1, timeout_ms.max(1));
        let v6 = gen_plans(rng, n + 1, timeout_ms.max(1));
        Case {
            api,
            delays,
            timeout_ms,
            v4,
            v6,
            cap_ms: 200_000,
            seed: rng.next_u64(),
        }
    }

    fn exec_case(&self, case: &Case, ctx: &Ctx) {
        let case = case.clone();
        let ctx2 = ctx.clone();
        run_e1(case.seed, false, ctx, async move {
            let ctx = ctx2;
            let sim = SimResolver::new(case.v4.clone(), case.v6.clone(), vec![]);
            let state = sim.state.clone();
            let resolver = DnsResolver::custom(sim);
            let t0 = tokio::time::Instant::now();
            let timeout = Duration::from_millis(case.timeout_ms);
            ctx.ev(format!(
                "invoke api={} delays={:?} timeout_ms={}",
                case.api, case.delays, case.timeout_ms
            ));
            let call = async {
                match case.api {
                    0 => resolver
                        .lookup_ipv4_staggered("host.example", timeout, &case.delays)
                        .await
                        .map(|i| i.collect::<Vec<_>>()),
                    1 => resolver
                        .lookup_ipv6_staggered("host.example", timeout, &case.delays)
                        .await
                        .map(|i| i.collect::<Vec<_>>()),
                    _ => resolver
                        .lookup_ipv4_ipv6_staggered("host.example", timeout, &case.delays)
                        .await
                        .map(|i| i.collect::<Vec<_>>()),
                }
            };
            let res = tokio::time::timeout(Duration::from_millis(case.cap_ms), call).await;
            let t_done = t0.elapsed().as_millis() as u64;
            let calls = state.lock().unwrap().calls.clone();
            for c in &calls {
                ctx.ev(format!("attempt-start fam={:?} idx={} t={}", c.fam, c.idx, c.start_ms));
            }
            // ---- model ----
            let fams: &[Fam] = match case.api {
                0 => &[Fam::V4],
                1 => &[Fam::V6],
                _ => &[Fam::V4, Fam::V6],
            };
            let mut attempts: Vec<Attempt> = vec![];
            let starts_of = |f: Fam| -> Vec<u64> {
                calls.iter().filter(|c| c.fam == f).map(|c| c.start_ms).collect()
            };
            let primary = starts_of(fams[0]);
            if fams.len() == 2 && starts_of(Fam::V6) != primary {
                ctx.violate(
                    "dual-attempt-families-not-started-together",
                    format!("v4 starts {:?} v6 starts {:?}", primary, starts_of(Fam::V6)),
                );
                return;
            }
            for (k, s) in primary.iter().enumerate() {
                let mut done = 0u64;
                let mut addrs: Vec<std::net::IpAddr> = vec![];
                let mut any_ok = false;
                let mut any_timeout = false;
                for f in fams {
                    let plans = if *f == Fam::V4 { &case.v4 } else { &case.v6 };
                    let plan = &plans[k.min(plans.len() - 1)];
                    let (d, ok, to) = plan_outcome(*s, plan, case.timeout_ms);
                    done = done.max(d);
                    any_timeout |= to;
                    if let Some(n) = ok {
                        any_ok = true;
                        for j in 0..n {
                            addrs.push(if *f == Fam::V4 {
                                v4_addr(k, j).into()
                            } else {
                                v6_addr(k, j).into()
                            });
                        }
                    }
                }
                attempts.push(Attempt {
                    start: *s,
                    done,
                    ok: any_ok.then_some(addrs),
                    timeout: any_timeout && !any_ok,
                });
            }
            // start-time windows
            if attempts.is_empty() || attempts[0].start != 0 {
                ctx.violate(
                    "first-attempt-not-immediate",
                    format!("attempt starts {:?}", primary),
                );
                return;
            }
            let mut sorted: Vec<u64> = case.delays.clone();
            sorted.sort();
            let mut started: Vec<u64> = primary[1..].to_vec();
            started.sort();
            if started.len() > sorted.len() {
                ctx.violate("too-many-attempts", format!("starts {:?} delays {:?}", primary, sorted));
                return;
            }
            for (i, s) in started.iter().enumerate() {
                let d = sorted[i];
                if *s < lower(d) || *s > upper(d) {
                    ctx.violate(
                        "attempt-start-outside-20-percent-window",
                        format!("delay {d} ms attempt started at {s} ms (delays {:?}, starts {:?})", sorted, primary),
                    );
                    return;
                }
            }
            let finished = res.is_ok();
            let t_ref = if finished { t_done } else { case.cap_ms };
            for d in &sorted[started.len()..] {
                if upper(*d) < t_ref.saturating_sub(1) {
                    ctx.violate(
                        "attempt-never-started",
                        format!("delay {d} ms had not started by {t_ref} ms (starts {:?})", primary),
                    );
                    return;
                }
            }
            if started.len() >= 1 {
                ctx.count("probe.second_attempt_started");
            }
            let first_success = attempts.iter().filter(|a| a.ok.is_some()).map(|a| a.done).min();
            let all_started = attempts.len() == case.delays.len() + 1;
            let all_done = attempts.iter().map(|a| a.done).max().unwrap_or(0);
            match res {
                Err(_) => {
                    ctx.ev("return cap");
                    ctx.count("probe.cap_reached");
                    if let Some(t) = first_success {
                        if t + 2 < case.cap_ms {
                            ctx.violate(
                                "success-not-returned",
                                format!("attempt succeeded at {t} ms but call still pending at {} ms", case.cap_ms),
                            );
                        }
                    } else if all_started && all_done + 2 < case.cap_ms {
                        ctx.violate(
                            "all-failed-not-returned",
                            format!("all attempts failed by {all_done} ms but call still pending at cap"),
                        );
                    }
                }
                Ok(Ok(addrs)) => {
                    ctx.ev(format!("return ok t={t_done} addrs={addrs:?}"));
                    match first_success {
                        None => ctx.violate(
                            "ok-without-successful-attempt",
                            format!("returned {addrs:?} but model has no successful attempt"),
                        ),
                        Some(t) => {
                            if t_done > t + 1 || t_done + 1 < t {
                                ctx.violate(
                                    "not-first-success-time",
                                    format!("first success at {t} ms, returned at {t_done} ms"),
                                );
                            } else if !attempts
                                .iter()
                                .any(|a| a.ok.as_ref() == Some(&addrs) && a.done <= t + 1)
                            {
                                ctx.violate(
                                    "not-first-success-value",
                                    format!("returned {addrs:?}, attempts {attempts:?}"),
                                );
                            }
                        }
                    }
                    if attempts.iter().any(|a| a.ok.is_none() && a.done < t_done) {
                        ctx.nontrivial();
                        ctx.count("probe.success_after_failure");
                    }
                }
                Ok(Err(err)) => {
                    let n = err.iter().count();
                    let n_timeout = err
                        .iter()
                        .filter(|e| match e {
                            DnsError::Timeout { .. } => true,
                            DnsError::ResolveBoth { ipv4, ipv6, .. } => {
                                matches!(**ipv4, DnsError::Timeout { .. })
                                    || matches!(**ipv6, DnsError::Timeout { .. })
                            }
                            _ => false,
                        })
                        .count();
                    ctx.ev(format!("return err t={t_done} n={n} timeouts={n_timeout}"));
                    if first_success.is_some_and(|t| t <= t_done) {
                        ctx.violate(
                            "err-despite-success",
                            format!("an attempt succeeded at {:?} ms but Err returned at {t_done}", first_success),
                        );
                    } else if !all_started {
                        ctx.violate(
                            "err-before-all-attempts",
                            format!("{} of {} attempts started", attempts.len(), case.delays.len() + 1),
                        );
                    } else if n != case.delays.len() + 1 {
                        ctx.violate(
                            "err-missing-attempt-errors",
                            format!("{n} errors for {} attempts", case.delays.len() + 1),
                        );
                    } else if t_done > all_done + 1 || t_done + 1 < all_done {
                        ctx.violate(
                            "err-time-mismatch",
                            format!("all attempts failed by {all_done} ms, returned at {t_done} ms"),
                        );
                    } else {
                        let model_timeouts = attempts.iter().filter(|a| a.timeout).count();
                        // for the dual api an attempt reports ResolveBoth; count attempts with >=1 timeout
                        if case.api != 2 && model_timeouts != n_timeout {
                            ctx.violate(
                                "err-kinds-mismatch",
                                format!("model timeouts {model_timeouts}, reported {n_timeout}"),
                            );
                        }
                    }
                    if n >= 2 {
                        ctx.nontrivial();
                    }
                    if n_timeout > 0 {
                        ctx.count("probe.timeout_error");
                    }
                }
            }
            if case.delays.iter().any(|d| *d == 1 || *d == 2) {
                ctx.count("probe.delay_1_or_2");
            }
            if case.delays.iter().any(|d| *d > u64::MAX / 40) {
                ctx.count("probe.saturating_delay");
            }
        });
    }

    fn shrink_case(&self, case: &Case) -> Vec<Case> {
        let mut out = vec![];
        for d in fw::shrink_vec(&case.delays) {
            let mut c = case.clone();
            c.delays = d;
            out.push(c);
        }
        if case.api != 0 {
            let mut c = case.clone();
            c.api = 0;
            out.push(c);
        }
        for (i, p) in case.v4.iter().enumerate() {
            if p.delay_ms != 0 || p.result != LookupResult::Err {
                let mut c = case.clone();
                c.v4[i] = LookupPlan {
                    delay_ms: 0,
                    result: LookupResult::Err,
                };
                out.push(c);
            }
        }
        for (i, p) in case.v6.iter().enumerate() {
            if p.delay_ms != 0 || p.result != LookupResult::Err {
                let mut c = case.clone();
                c.v6[i] = LookupPlan {
                    delay_ms: 0,
                    result: LookupResult::Err,
                };
                out.push(c);
            }
        }
        for (i, d) in case.delays.iter().enumerate() {
            for smaller in [0u64, 1, 3, 10, 100] {
                if smaller < *d {
                    let mut c = case.clone();
                    c.delays[i] = smaller;
                    out.push(c);
                }
            }
        }
        out
    }
}

impl Property for C34 {
    fn id(&self) -> &'static str {
        "C34"
    }
    fn rule(&self) -> String {
        "case = (api in {ipv4,ipv6,ipv4_ipv6}_staggered, 0..5 delays drawn 3:1 from boundary values {0,1,2,3,4,5,..,u64::MAX/40,u64::MAX} vs uniform 0..5000 ms, per-attempt timeout, per-attempt scripted outcome Ok(n)/Err/Hang after a delay straddling the timeout); non-trivial = at least two attempt results were consumed (a success returned after an earlier failure, or an all-failed error with >=2 errors); distinct = distinct history hash (attempt start times + result)".into()
    }
    fn assumptions(&self) -> Vec<String> {
        vec![
            "tokio paused clock is the only clock stagger_call/op read (n0_future::time = tokio::time on native)".into(),
            "window tolerance +-1 ms around +-20% for integer rounding".into(),
            "TXT-based staggered variants share stagger_call and are not separately driven".into(),
        ]
    }
    fn real_vs_stub(&self) -> Value {
        json!({"real": ["iroh_dns::dns::DnsResolver::{lookup_*_staggered, lookup_ipv4/6, lookup_ipv4_ipv6}", "stagger_call", "add_jitter", "Inner::op timeout/reset select"], "stub": ["DNS servers (SimResolver implements the public Resolver trait)", "clock (tokio paused)", "entropy (seeded getrandom)"]})
    }
    fn runs(&self, tier: Tier) -> u64 {
        match tier {
            Tier::Quick => 40_000,
            Tier::Thorough => 3_000_000,
        }
    }
    fn generate(&self, seed: u64, tier: Tier) -> Value {
        fw::typed_generate(self, seed, tier)
    }
    fn execute(&self, case: &Value, ctx: &Ctx) {
        fw::typed_execute(self, case, ctx)
    }
    fn shrink(&self, case: &Value) -> Vec<Value> {
        fw::typed_shrink(self, case)
    }
}
