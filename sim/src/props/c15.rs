//! C15 — Relay dialing tries every resolved address and returns the first success.
//!
//! Subject: the real `dial_happy_eyeballs` (through `client::tls_verif::dial`) with a scripted
//! resolver and a scripted connector (cfg(iroh_verif) seam in place of `TcpStream::connect`), on the
//! virtual clock. A successful simulated connect hands back a real loopback stream whose local port
//! identifies the attempt; everything that matters (order, timing, outcome) is simulated.

use std::{
    collections::BTreeMap,
    net::IpAddr,
    sync::{Arc, Mutex},
    time::Duration,
};

use iroh_dns::dns::DnsResolver;
use iroh_relay::client::tls_verif;
use serde::{Deserialize, Serialize};
use serde_json::{Value, json};

use crate::fw::{
    self, Ctx, Property, Rng, Tier, Typed,
    rt::{E1Hook, run_e1},
    simio::{LookupPlan, LookupResult, SimResolver, v4_addr, v6_addr},
};

pub struct C15;

#[derive(Clone, Debug, Serialize, Deserialize, PartialEq)]
pub enum Conn {
    Ok(u64),
    Err(u64),
    Hang,
}

#[derive(Clone, Debug, Serialize, Deserialize)]
pub struct Case {
    pub prefer_ipv6: bool,
    pub v4: LookupPlan,
    pub v6: LookupPlan,
    /// connect behaviour for the j-th address of each family
    pub v4_conn: Vec<Conn>,
    pub v6_conn: Vec<Conn>,
    pub seed: u64,
}

const RESOLUTION_DELAY: u64 = 50;
const DNS_TIMEOUT: u64 = 3000;
const DIAL_TIMEOUT: u64 = 1500;

fn gen_lookup(rng: &mut Rng) -> LookupPlan {
    let result = match rng.below(10) {
        0..=6 => LookupResult::Ok(rng.range(0, 4) as u8),
        7..=8 => LookupResult::Err,
        _ => LookupResult::Hang,
    };
    let delay_ms = match rng.below(5) {
        0 => 0,
        1 => rng.range(0, 100),
        2 => rng.edgy(0, 400, &[49, 50, 51, 249, 250, 251]),
        3 => rng.range(0, 2000),
        _ => rng.edgy(0, 4000, &[2999, 3000, 3001]),
    };
    LookupPlan { delay_ms, result }
}

fn gen_conn(rng: &mut Rng) -> Conn {
    match rng.below(10) {
        0..=2 => Conn::Ok(rng.edgy(0, 2000, &[0, 1, 249, 250, 251, 1499, 1500, 1501])),
        3..=7 => Conn::Err(rng.edgy(0, 2000, &[0, 1, 249, 250, 251])),
        _ => Conn::Hang,
    }
}

#[derive(Debug, Clone)]
struct AttemptLog {
    addr: IpAddr,
    start: u64,
}

impl Typed for C15 {
    type Case = Case;

    fn gen_case(&self, rng: &mut Rng, _tier: Tier) -> Case {
        Case {
            prefer_ipv6: rng.coin(),
            v4: gen_lookup(rng),
            v6: gen_lookup(rng),
            v4_conn: (0..4).map(|_| gen_conn(rng)).collect(),
            v6_conn: (0..4).map(|_| gen_conn(rng)).collect(),
            seed: rng.next_u64(),
        }
    }

    fn exec_case(&self, case: &Case, ctx: &Ctx) {
        let case = case.clone();
        let ctx2 = ctx.clone();
        let hook = E1Hook::install(ctx, case.seed, &[]);
        let attempts: Arc<Mutex<Vec<(IpAddr, tokio::time::Instant)>>> = Default::default();
        let connected: Arc<Mutex<Vec<(String, tokio::time::Instant)>>> = Default::default();
        {
            let plan: BTreeMap<IpAddr, Conn> = (0..4u8)
                .map(|j| (IpAddr::from(v4_addr(0, j)), case.v4_conn[j as usize].clone()))
                .chain((0..4u8).map(|j| (IpAddr::from(v6_addr(0, j)), case.v6_conn[j as usize].clone())))
                .collect();
            let attempts = attempts.clone();
            *hook.0.stub.lock().unwrap() = Some(Box::new(move |site, arg| {
                if site != "relay.dial.connect" {
                    return None;
                }
                let sa: std::net::SocketAddr = arg.parse().ok()?;
                attempts.lock().unwrap().push((sa.ip(), tokio::time::Instant::now()));
                Some(match plan.get(&sa.ip()) {
                    Some(Conn::Ok(ms)) => format!("ok:{ms}"),
                    Some(Conn::Err(ms)) => format!("err:{ms}"),
                    _ => "hang".to_string(),
                })
            }));
            let connected = connected.clone();
            *hook.0.on_event.lock().unwrap() = Some(Box::new(move |site, data| {
                if site == "relay.dial.connected" {
                    connected.lock().unwrap().push((data.to_string(), tokio::time::Instant::now()));
                }
            }));
        }
        run_e1(case.seed, true, ctx, async move {
            let ctx = ctx2;
            let t0 = tokio::time::Instant::now();
            let sim = SimResolver::new(vec![case.v4.clone()], vec![case.v6.clone()], vec![]);
            let resolver = DnsResolver::custom(sim);
            let url: url::Url = "http://relay.example.:8080/".parse().unwrap();
            let res = tokio::time::timeout(Duration::from_secs(60), tls_verif::dial(&resolver, &url, case.prefer_ipv6)).await;
            let t_done = t0.elapsed().as_millis() as u64;
            let log: Vec<AttemptLog> = attempts
                .lock()
                .unwrap()
                .iter()
                .map(|(a, t)| AttemptLog { addr: *a, start: t.duration_since(t0).as_millis() as u64 })
                .collect();
            for a in &log {
                ctx.ev(format!("attempt {} start={}", a.addr, a.start));
            }
            // ---- model of resolution ----
            let fam_res = |p: &LookupPlan| -> (u64, Option<u8>) {
                match p.result {
                    LookupResult::Ok(n) if p.delay_ms <= DNS_TIMEOUT => (p.delay_ms, Some(n)),
                    LookupResult::Err if p.delay_ms <= DNS_TIMEOUT => (p.delay_ms, None),
                    _ => (DNS_TIMEOUT, None),
                }
            };
            let (t4, n4) = fam_res(&case.v4);
            let (t6, n6) = fam_res(&case.v6);
            let resolved: Vec<(IpAddr, u64)> = (0..n4.unwrap_or(0))
                .map(|j| (IpAddr::from(v4_addr(0, j)), t4))
                .chain((0..n6.unwrap_or(0)).map(|j| (IpAddr::from(v6_addr(0, j)), t6)))
                .collect();
            let resolution_done = t4.max(t6);
            let conn_of = |ip: &IpAddr| -> Conn {
                match ip {
                    IpAddr::V4(a) => case.v4_conn[a.octets()[3] as usize].clone(),
                    IpAddr::V6(a) => case.v6_conn[a.segments()[7] as usize].clone(),
                }
            };
            // outcome of every attempt per plan
            let outcome = |a: &AttemptLog| -> (u64, bool) {
                match conn_of(&a.addr) {
                    Conn::Ok(ms) if ms <= DIAL_TIMEOUT => (a.start + ms, true),
                    Conn::Err(ms) if ms <= DIAL_TIMEOUT => (a.start + ms, false),
                    _ => (a.start + DIAL_TIMEOUT, false),
                }
            };
            // attempted addresses must have been resolved, each at most once, not before resolving
            let mut seen = std::collections::BTreeSet::new();
            for a in &log {
                match conn_of(&a.addr) {
                    Conn::Err(_) => ctx.count("fault.tcp_connect_refused"),
                    Conn::Hang => ctx.count("fault.tcp_connect_never_completes"),
                    Conn::Ok(ms) if ms > DIAL_TIMEOUT => ctx.count("fault.tcp_connect_slower_than_timeout"),
                    _ => {}
                }
                let Some(r) = resolved.iter().find(|r| r.0 == a.addr) else {
                    ctx.violate("attempt-to-unresolved-address", format!("{}", a.addr));
                    return;
                };
                if a.start + 1 < r.1 {
                    ctx.violate("attempt-before-resolution", format!("{} attempted at {} ms, resolved at {} ms", a.addr, a.start, r.1));
                    return;
                }
                if !seen.insert(a.addr) {
                    ctx.violate("address-attempted-twice", format!("{}", a.addr));
                    return;
                }
            }
            let first_success = log.iter().map(|a| outcome(a)).filter(|o| o.1).map(|o| o.0).min();
            match &res {
                Err(_) => {
                    ctx.violate("dial-never-returns", format!("pending after 60 virtual s; attempts {log:?}"));
                    return;
                }
                Ok(Ok(stream)) => {
                    let port = stream.local_addr().map(|a| a.port()).unwrap_or(0);
                    let c = connected.lock().unwrap().clone();
                    let which = c.iter().find(|(d, _)| d.ends_with(&format!(" {port}"))).map(|(d, _)| d.split(' ').next().unwrap().to_string());
                    ctx.ev(format!("return ok t={t_done} via {which:?}"));
                    let Some(which) = which else {
                        ctx.violate("returned-stream-of-unknown-attempt", format!("port {port}"));
                        return;
                    };
                    let ip: IpAddr = which.parse::<std::net::SocketAddr>().unwrap().ip();
                    let a = log.iter().find(|a| a.addr == ip).unwrap();
                    let (done, ok) = outcome(a);
                    if !ok {
                        ctx.violate("returned-failed-attempt", format!("{ip}"));
                        return;
                    }
                    if let Some(fs) = first_success {
                        if done > fs + 1 {
                            ctx.violate(
                                "not-first-successful-attempt",
                                format!("returned the attempt to {ip} (connected at {done} ms) although another attempt connected at {fs} ms"),
                            );
                            return;
                        }
                        if t_done > fs + 1 {
                            ctx.violate("first-success-returned-late", format!("first success at {fs} ms, returned at {t_done} ms"));
                            return;
                        }
                    }
                    ctx.count("probe.dial_ok");
                }
                Ok(Err(_)) => {
                    ctx.ev(format!("return err t={t_done}"));
                    if first_success.is_some_and(|fs| fs <= t_done) {
                        ctx.violate("error-despite-successful-attempt", format!("an attempt connected at {first_success:?} ms, Err returned at {t_done}"));
                        return;
                    }
                    if t_done + 1 < resolution_done {
                        ctx.violate("error-before-resolution-finished", format!("Err at {t_done} ms, resolution finishes at {resolution_done} ms"));
                        return;
                    }
                    for r in &resolved {
                        if !log.iter().any(|a| a.addr == r.0) {
                            ctx.violate("error-without-trying-every-address", format!("{} resolved at {} ms was never attempted; attempts {log:?}", r.0, r.1));
                            return;
                        }
                    }
                    if log.iter().any(|a| outcome(a).0 > t_done + 1) {
                        ctx.violate("error-before-every-attempt-failed", format!("Err at {t_done} ms while an attempt was still in flight; {log:?}"));
                        return;
                    }
                    ctx.count("probe.dial_err");
                }
            }
            // every resolved address attempted unless a success already happened (by the end)
            if let Ok(Ok(_)) = &res {
                // fine: remaining addresses may stay untried
            }
            // first attempt uses the preferred family when one resolved within the resolution delay
            if let Some(first) = log.first() {
                let pref_is_v6 = case.prefer_ipv6;
                let first_any = resolved.iter().map(|r| r.1).min().unwrap_or(0);
                let pref_resolved_at = resolved.iter().filter(|r| r.0.is_ipv6() == pref_is_v6).map(|r| r.1).min();
                if let Some(tp) = pref_resolved_at {
                    if tp < first_any + RESOLUTION_DELAY && first.addr.is_ipv6() != pref_is_v6 {
                        ctx.violate(
                            "first-attempt-not-preferred-family",
                            format!("preferred family resolved at {tp} ms (first answer at {first_any} ms) but the first attempt at {} ms went to {}", first.start, first.addr),
                        );
                        return;
                    }
                    if tp < first_any + RESOLUTION_DELAY && tp > first_any {
                        ctx.count("probe.preferred_family_within_resolution_delay");
                    }
                }
            }
            // later attempts alternate families while both have untried addresses
            for i in 1..log.len() {
                let a = &log[i];
                let prev = &log[i - 1];
                let untried = |v6: bool| {
                    resolved
                        .iter()
                        .any(|r| r.0.is_ipv6() == v6 && r.1 < a.start && !log[..i].iter().any(|x| x.addr == r.0))
                };
                if untried(true) && untried(false) {
                    ctx.count("probe.both_families_untried_at_later_attempt");
                    if a.addr.is_ipv6() == prev.addr.is_ipv6() {
                        ctx.violate(
                            "families-not-alternated",
                            format!("attempt {i} at {} ms went to {} right after {} although both families had untried addresses; attempts {:?}", a.start, a.addr, prev.addr, log.iter().map(|x| (x.addr, x.start)).collect::<Vec<_>>()),
                        );
                        return;
                    }
                }
            }
            if log.len() >= 2 {
                ctx.nontrivial();
            }
        });
        drop(hook);
    }

    fn shrink_case(&self, case: &Case) -> Vec<Case> {
        let mut out = vec![];
        for (fam, p) in [(0, &case.v4), (1, &case.v6)] {
            if let LookupResult::Ok(n) = p.result {
                if n > 1 {
                    let mut c = case.clone();
                    if fam == 0 { c.v4.result = LookupResult::Ok(n - 1) } else { c.v6.result = LookupResult::Ok(n - 1) }
                    out.push(c);
                }
            }
            if p.delay_ms > 0 {
                let mut c = case.clone();
                if fam == 0 { c.v4.delay_ms = 0 } else { c.v6.delay_ms = 0 }
                out.push(c);
            }
        }
        for j in 0..4 {
            if case.v4_conn[j] != Conn::Err(0) {
                let mut c = case.clone();
                c.v4_conn[j] = Conn::Err(0);
                out.push(c);
            }
            if case.v6_conn[j] != Conn::Err(0) {
                let mut c = case.clone();
                c.v6_conn[j] = Conn::Err(0);
                out.push(c);
            }
        }
        out
    }
}

impl Property for C15 {
    fn id(&self) -> &'static str {
        "C15"
    }
    fn rule(&self) -> String {
        "case = (family preference, per family: lookup answering 0..4 addresses / failing / hanging after a delay straddling the 50 ms resolution delay, the 250 ms attempt delay and the 3 s DNS timeout; per address: connect succeeds / fails after a delay straddling 250 ms and the 1.5 s dial timeout, or hangs); non-trivial = at least two connection attempts were started; distinct = distinct history hash (attempt order and start times, result)".into()
    }
    fn assumptions(&self) -> Vec<String> {
        vec![
            "a successful simulated connect returns a real connected loopback TcpStream (created synchronously); only its local port, which identifies the attempt, is used".into(),
            "+-1 ms tolerance on timer comparisons".into(),
        ]
    }
    fn real_vs_stub(&self) -> Value {
        json!({"real": ["client::tls::dial_happy_eyeballs", "pop_family", "DnsResolver::resolve_host_all"], "stub": ["DNS servers (SimResolver)", "TCP connect (scripted connector seam; loopback socket as identity token)", "clock"]})
    }
    fn runs(&self, tier: Tier) -> u64 {
        match tier {
            Tier::Quick => 30_000,
            Tier::Thorough => 2_000_000,
        }
    }
    fn generate(&self, seed: u64, tier: Tier) -> Value {
        fw::typed_generate(self, seed, tier)
    }
    fn execute(&self, case: &Value, ctx: &Ctx) {
        fw::typed_execute(self, case, ctx)
    }
    fn shrink(&self, case: &Value) -> Vec<Value> {
        fw::typed_shrink(self, case)
    }
}
