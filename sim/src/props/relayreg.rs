//! Shared harness for C04 / C05 / C06: the real relay client registry (`Clients::register`, real
//! per-connection `Actor`s, real `RelayedStream` codec) driven through the public embedder API over
//! `SimFramed` pipes. Frames are encoded/decoded by hand here (independent of the repo's codec).

use std::{
    collections::{BTreeMap, BTreeSet},
    sync::Arc,
    time::Duration,
};

use bytes::{BufMut, Bytes, BytesMut};
use iroh_base::{EndpointId, SecretKey};
use iroh_relay::{
    KeyCache,
    http::ProtocolVersion,
    server::{
        ConnectionId, Metrics, OnDisconnectGuard,
        client::Config,
        clients::Clients,
        streams::RelayedStream,
    },
};
use serde::{Deserialize, Serialize};

use crate::fw::{
    Ctx, Rng,
    framed::{ClientEnd, Seq, pipe},
    rt::yields,
};

#[derive(Clone, Debug, Serialize, Deserialize, PartialEq)]
pub enum Op {
    Register { ident: u8, v1: bool, cap: u16 },
    /// well-formed datagram (or batch) with a unique tag
    Send { conn: u8, dst: u8, len: u32, ecn: u8, seg: Option<u16> },
    /// adversarial frame shapes (C05)
    Raw { conn: u8, dst: u8, shape: RawShape },
    Close { conn: u8 },
    Error { conn: u8 },
    Disconnect { ident: u8, conn: Option<u8> },
    Ping { conn: u8 },
    Reading { conn: u8, on: bool },
    FailSend { conn: u8, n: u8 },
    /// `Clients::shutdown()` started as a background task (races with whatever follows)
    Shutdown,
    /// 0 none, 1 one yield, 2 several yields, 3 sleep ms
    Pause { kind: u8, ms: u32 },
}

#[derive(Clone, Debug, Serialize, Deserialize, PartialEq)]
pub enum RawShape {
    /// datagram frame with exactly this many content bytes (non-batch)
    DatagramLen(u32),
    /// batch frame with this segment size and content length
    Batch { seg: u16, len: u32 },
    /// frame of this type byte with this many payload bytes after the type
    Typed { typ: u8, len: u32 },
    /// frame whose total payload after the type byte has exactly this length, datagram type
    DatagramFrameLen(u32),
    /// datagram with invalid destination key bytes
    BadKey,
    /// empty websocket message
    Empty,
}

#[derive(Clone, Debug, Serialize, Deserialize)]
pub struct Case {
    pub n_idents: u8,
    pub write_timeout_ms: u64,
    pub calm: bool,
    pub ops: Vec<Op>,
    pub seed: u64,
}

#[derive(Clone, Copy, Debug, PartialEq, Eq)]
pub enum Mode {
    /// C04 forwarding safety
    Forward,
    /// C05 third-party kill
    Kill,
    /// C06 registry model
    Registry,
}

pub fn ident_key(i: usize) -> EndpointId {
    SecretKey::from_bytes(&[(i + 1) as u8; 32]).public()
}

pub fn enc_datagram(dst: &[u8], ecn: u8, seg: Option<u16>, contents: &[u8]) -> Bytes {
    let mut b = BytesMut::with_capacity(40 + contents.len());
    b.put_u8(if seg.is_some() { 5 } else { 4 });
    b.put_slice(dst);
    b.put_u8(ecn);
    if let Some(s) = seg {
        b.put_u16(s);
    }
    b.put_slice(contents);
    b.freeze()
}

#[derive(Debug, Clone, PartialEq)]
pub enum Rx {
    Datagrams { src: [u8; 32], ecn: u8, seg: Option<u16>, contents: Bytes },
    EndpointGone([u8; 32]),
    Ping([u8; 8]),
    Pong([u8; 8]),
    Health(String),
    Status(u8),
    Restarting,
    Undecodable(u8),
}

pub fn dec_rx(b: &Bytes) -> Rx {
    if b.is_empty() {
        return Rx::Undecodable(255);
    }
    let t = b[0];
    let p = b.slice(1..);
    match t {
        6 | 7 => {
            if p.len() < 33 + if t == 7 { 2 } else { 0 } {
                return Rx::Undecodable(t);
            }
            let mut src = [0u8; 32];
            src.copy_from_slice(&p[..32]);
            let ecn = p[32];
            let (seg, contents) = if t == 7 {
                (Some(u16::from_be_bytes([p[33], p[34]])), p.slice(35..))
            } else {
                (None, p.slice(33..))
            };
            Rx::Datagrams { src, ecn, seg, contents }
        }
        8 if p.len() == 32 => {
            let mut k = [0u8; 32];
            k.copy_from_slice(&p);
            Rx::EndpointGone(k)
        }
        9 if p.len() == 8 => {
            let mut k = [0u8; 8];
            k.copy_from_slice(&p);
            Rx::Ping(k)
        }
        10 if p.len() == 8 => {
            let mut k = [0u8; 8];
            k.copy_from_slice(&p);
            Rx::Pong(k)
        }
        11 => Rx::Health(String::from_utf8_lossy(&p).to_string()),
        12 => Rx::Restarting,
        13 if p.len() == 1 => Rx::Status(p[0]),
        _ => Rx::Undecodable(t),
    }
}

#[derive(Debug, Clone)]
pub struct Sent {
    pub seq: u64,
    pub src_conn: usize,
    pub dst_ident: usize,
    pub ecn: u8,
    pub seg: Option<u16>,
    pub contents: Bytes,
    pub tracked: bool,
}

#[derive(Debug)]
pub struct ConnM {
    pub ident: usize,
    pub v1: bool,
    pub cap: usize,
    pub client: ClientEnd,
    pub conn_id: ConnectionId,
    pub reg_seq: u64,
    /// seq at which an end cause was initiated by the harness or a server-side death observed
    pub end_seq: Option<u64>,
    pub harness_ended: bool,
    pub ever_stalled: bool,
    pub read_upto: usize,
    pub rx: Vec<(u64, Rx)>,
    pub pings_sent: Vec<[u8; 8]>,
    // registry-model expectations (calm mode)
    pub exp_same: u32,
    pub exp_healthy: u32,
    pub exp_gone: BTreeMap<usize, u32>,
}

pub struct World {
    pub clients: Clients,
    pub metrics: Arc<Metrics>,
    pub seq: Seq,
    pub conns: Vec<ConnM>,
    pub sent: Vec<Sent>,
    pub by_contents: BTreeMap<Vec<u8>, Vec<usize>>,
    pub next_tag: u64,
    pub n_idents: usize,
    pub write_timeout_ms: u64,
    // exact model (calm mode)
    pub stack: BTreeMap<usize, Vec<usize>>,
    pub sent_to: BTreeMap<usize, BTreeSet<usize>>,
    /// attacker frames: (seq, attacker conn, dst ident, shape summary)
    pub attacks: Vec<(u64, usize, usize, String)>,
}

impl World {
    pub fn new(n_idents: usize, write_timeout_ms: u64) -> Self {
        World {
            clients: Clients::default(),
            metrics: Arc::new(Metrics::default()),
            seq: Seq::default(),
            conns: vec![],
            sent: vec![],
            by_contents: BTreeMap::new(),
            next_tag: 1,
            n_idents,
            write_timeout_ms,
            stack: BTreeMap::new(),
            sent_to: BTreeMap::new(),
            attacks: vec![],
        }
    }

    pub fn register(&mut self, ctx: &Ctx, ident: usize, v1: bool, cap: usize) -> usize {
        let (server, client) = pipe(&self.seq, cap.max(1));
        // every second connection stalls in flush (frame already buffered) instead of in poll_ready
        client.set_stall_at_flush(self.conns.len() % 2 == 1);
        let guard = OnDisconnectGuard::empty(ident_key(ident));
        let conn_id = guard.connection_id();
        let version = if v1 { ProtocolVersion::V1 } else { ProtocolVersion::V2 };
        let mut cfg = Config::new(guard, RelayedStream::new(server, KeyCache::new(0)), version);
        cfg.write_timeout = Duration::from_millis(self.write_timeout_ms);
        cfg.channel_capacity = cap.max(1);
        let reg_seq = self.seq.next();
        self.clients.register(cfg, self.metrics.clone());
        let idx = self.conns.len();
        self.conns.push(ConnM {
            ident,
            v1,
            cap: cap.max(1),
            client,
            conn_id,
            reg_seq,
            end_seq: None,
            harness_ended: false,
            ever_stalled: false,
            read_upto: 0,
            rx: vec![],
            pings_sent: vec![],
            exp_same: 0,
            exp_healthy: 0,
            exp_gone: BTreeMap::new(),
        });
        ctx.ev(format!("#{reg_seq} register conn={idx} ident={ident} v1={v1} cap={cap}"));
        // exact model
        let st = self.stack.entry(ident).or_default();
        if let Some(top) = st.last().copied() {
            self.conns[top].exp_same += 1;
        }
        st.push(idx);
        idx
    }

    /// Model: connection `c` left the registry.
    pub fn model_end(&mut self, c: usize) {
        let ident = self.conns[c].ident;
        let st = self.stack.entry(ident).or_default();
        let was_top = st.last().copied() == Some(c);
        st.retain(|x| *x != c);
        if was_top {
            if let Some(nt) = st.last().copied() {
                self.conns[nt].exp_healthy += 1;
            } else if let Some(peers) = self.sent_to.remove(&ident) {
                for p in peers {
                    if let Some(pt) = self.stack.get(&p).and_then(|s| s.last().copied()) {
                        *self.conns[pt].exp_gone.entry(ident).or_insert(0) += 1;
                    }
                }
            }
        }
    }

    pub fn alive(&self, c: usize) -> bool {
        self.conns[c].end_seq.is_none()
    }

    pub fn pick_conn(&self, k: u8) -> Option<usize> {
        if self.conns.is_empty() {
            None
        } else {
            Some(k as usize % self.conns.len())
        }
    }

    pub fn make_contents(&mut self, len: usize) -> (Bytes, bool) {
        let tag = self.next_tag;
        self.next_tag += 1;
        let mut v = vec![0u8; len];
        let tb = tag.to_le_bytes();
        for (i, b) in v.iter_mut().enumerate() {
            *b = if i < 8 { tb[i] } else { (tag as u8).wrapping_mul(31).wrapping_add(i as u8) };
        }
        (Bytes::from(v), len >= 8)
    }

    pub fn send_datagram(&mut self, ctx: &Ctx, conn: usize, dst_ident: usize, len: usize, ecn: u8, seg: Option<u16>) {
        if !self.alive(conn) {
            return;
        }
        let (contents, tracked) = self.make_contents(len);
        let frame = enc_datagram(ident_key(dst_ident).as_bytes(), ecn, seg, &contents);
        let seq = self.seq.next();
        let idx = self.sent.len();
        // what the relay may legitimately forward: segment size 0 decodes to "no segment size"
        let seg_norm = seg.filter(|s| *s != 0);
        self.sent.push(Sent {
            seq,
            src_conn: conn,
            dst_ident,
            ecn: ecn & 3,
            seg: seg_norm,
            contents: contents.clone(),
            tracked,
        });
        self.by_contents.entry(contents.to_vec()).or_default().push(idx);
        ctx.ev(format!(
            "#{seq} send conn={conn} -> ident={dst_ident} len={len} ecn={ecn} seg={seg:?} tag={}",
            self.next_tag - 1
        ));
        if frame.len() - 1 > 65_536 {
            // the server's decoder rejects this frame and ends the *sender's* connection (legit)
            self.conns[conn].ever_stalled = true;
        }
        self.conns[conn].client.send(frame);
    }

    pub fn end_conn(&mut self, ctx: &Ctx, conn: usize, how: &str) {
        if !self.alive(conn) {
            return;
        }
        let seq = self.seq.next();
        self.conns[conn].end_seq = Some(seq);
        self.conns[conn].harness_ended = true;
        ctx.ev(format!("#{seq} {how} conn={conn}"));
        match how {
            "close" => self.conns[conn].client.close(),
            "error" => self.conns[conn].client.error(),
            _ => {}
        }
    }

    /// Drains new frames from every pipe, in global sequence order; answers pings.
    pub fn observe(&mut self, ctx: &Ctx) -> Vec<(u64, usize, Rx)> {
        let mut new: Vec<(u64, usize, Rx)> = vec![];
        for (i, c) in self.conns.iter_mut().enumerate() {
            let frames = c.client.received_from(c.read_upto);
            c.read_upto += frames.len();
            for (s, b) in frames {
                let rx = dec_rx(&b);
                new.push((s, i, rx));
            }
        }
        new.sort_by_key(|x| x.0);
        for (s, i, rx) in &new {
            let desc = match rx {
                Rx::Datagrams { src, ecn, seg, contents } => {
                    let who = (0..self.n_idents + 2).find(|k| ident_key(*k).as_bytes() == src);
                    let tag = if contents.len() >= 8 {
                        u64::from_le_bytes(contents[..8].try_into().unwrap())
                    } else {
                        0
                    };
                    format!("datagrams from_ident={who:?} ecn={ecn} seg={seg:?} len={} tag={tag}", contents.len())
                }
                Rx::EndpointGone(k) => {
                    let who = (0..self.n_idents + 2).find(|j| ident_key(*j).as_bytes() == k);
                    format!("endpoint-gone ident={who:?}")
                }
                Rx::Ping(_) => "ping".into(),
                Rx::Pong(_) => "pong".into(),
                Rx::Health(p) => format!("health {:?}", p.chars().take(24).collect::<String>()),
                Rx::Status(s) => format!("status {s}"),
                Rx::Restarting => "restarting".into(),
                Rx::Undecodable(t) => format!("undecodable type={t}"),
            };
            ctx.ev(format!("#{s} recv conn={i} {desc}"));
            self.conns[*i].rx.push((*s, rx.clone()));
        }
        // server-side deaths
        for (i, c) in self.conns.iter_mut().enumerate() {
            if c.end_seq.is_none() {
                if let Some(s) = c.client.server_dropped_seq() {
                    c.end_seq = Some(s);
                    ctx.ev(format!("#{s} server-side-end conn={i}"));
                    ctx.count("probe.server_side_end");
                }
            }
        }
        new
    }

    /// Lets everything go quiet: all connections read again, then wait past the write timeout.
    pub async fn settle(&mut self, ctx: &Ctx, heal: bool) {
        if heal {
            for c in &self.conns {
                c.client.set_reading(true);
            }
        }
        for _ in 0..3 {
            yields(6).await;
            self.observe(ctx);
        }
        tokio::time::sleep(Duration::from_millis(self.write_timeout_ms + 50)).await;
        for _ in 0..3 {
            yields(6).await;
            self.observe(ctx);
        }
    }
}

pub fn key_bytes_ident(n_idents: usize, k: &[u8; 32]) -> Option<usize> {
    (0..n_idents + 2).find(|j| ident_key(*j).as_bytes() == k)
}

pub fn gen_len(rng: &mut Rng) -> u32 {
    match rng.below(10) {
        0 => rng.range(0, 7) as u32,
        1..=6 => rng.range(8, 1500) as u32,
        7 => rng.range(1500, 9000) as u32,
        8 => *rng.pick(&[65_000u32, 65_400, 65_499, 65_500, 65_501, 65_502]),
        _ => rng.range(8, 64) as u32,
    }
}
