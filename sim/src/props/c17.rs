//! C17 — Relay receive path delivers datagrams in order and never wedges.
//!
//! Subject: the real `RelayTransport::poll_recv` (+ `Datagrams::take_segments`) through
//! `iroh::verif::RelayRecvHarness`: the receive queue is fed by the harness the way the
//! ActiveRelayActor feeds it. The poller behaves like noq's endpoint driver: it polls in a loop
//! until `Pending` and afterwards re-polls ONLY when the waker it passed fires.

use std::{
    num::NonZeroU16,
    sync::{
        Arc,
        atomic::{AtomicBool, AtomicU64, Ordering},
    },
    task::{Context, Poll, Wake, Waker},
};

use bytes::Bytes;
use iroh::verif::RelayRecvHarness;
use iroh_base::{RelayUrl, SecretKey};
use iroh_relay::protos::relay::Datagrams;
use serde::{Deserialize, Serialize};
use serde_json::{Value, json};

use crate::fw::{self, Ctx, Property, Rng, Tier, Typed, rt::run_e1, rt::yields};

pub struct C17;

#[derive(Clone, Debug, Serialize, Deserialize, PartialEq)]
pub struct Arrival {
    pub len: u32,
    pub seg: Option<u16>,
    pub src: u8,
    /// let the poller run (if woken) before the next arrival
    pub poll_after: bool,
}

#[derive(Clone, Debug, Serialize, Deserialize)]
pub struct Case {
    pub buf_len: u32,
    pub n_bufs: u8,
    pub arrivals: Vec<Arrival>,
    pub seed: u64,
}

struct Flag {
    woken: AtomicBool,
    wakes: AtomicU64,
}
impl Wake for Flag {
    fn wake(self: Arc<Self>) {
        self.woken.store(true, Ordering::SeqCst);
        self.wakes.fetch_add(1, Ordering::SeqCst);
    }
}

fn contents(tag: u32, len: usize) -> Vec<u8> {
    (0..len).map(|i| ((tag as usize).wrapping_mul(131).wrapping_add(i.wrapping_mul(7)) % 251) as u8).collect()
}

impl Typed for C17 {
    type Case = Case;

    fn gen_case(&self, rng: &mut Rng, _tier: Tier) -> Case {
        let buf_len = match rng.below(5) {
            0 => 1200,
            1 => 1472,
            2 => rng.range(1200, 9000) as u32,
            3 => 65_535,
            _ => *rng.pick(&[1200u32, 1280, 1452, 2048, 65_535, 64 * 1472]),
        };
        let n = rng.range(1, 10);
        let arrivals = (0..n)
            .map(|_| {
                let seg = if rng.chance(1, 2) {
                    Some(match rng.below(6) {
                        0 => rng.range(1, 64) as u16,
                        1 => rng.range(64, 1500) as u16,
                        2 => *rng.pick(&[1u16, 1200, 1472, 1500, 65_535]),
                        3 => (buf_len.min(65_535) as u16).saturating_add(rng.range(0, 2) as u16).max(1),
                        4 => (buf_len.min(65_535) as u16).saturating_sub(rng.range(0, 2) as u16).max(1),
                        _ => rng.range(1, 65_535) as u16,
                    })
                } else {
                    None
                };
                let len = match rng.below(6) {
                    0 => rng.range(1, 100) as u32,
                    1 => rng.range(100, 3000) as u32,
                    2 => rng.range(1, 65_535) as u32,
                    3 => seg.map(|s| s as u32 * rng.range(1, 4) as u32).unwrap_or(1200).min(65_535).max(1),
                    4 => seg.map(|s| s as u32 * rng.range(1, 3) as u32 + rng.range(1, 50) as u32).unwrap_or(1500).min(65_535),
                    _ => *rng.pick(&[1u32, buf_len.min(65_535), (buf_len + 1).min(65_535), 65_535]),
                };
                Arrival { len, seg, src: rng.range(0, 1) as u8, poll_after: rng.coin() }
            })
            .collect();
        Case { buf_len, n_bufs: rng.range(1, 8) as u8, arrivals, seed: rng.next_u64() }
    }

    fn exec_case(&self, case: &Case, ctx: &Ctx) {
        let case = case.clone();
        let ctx2 = ctx.clone();
        run_e1(case.seed, false, ctx, async move {
            let ctx = ctx2;
            let me = SecretKey::from_bytes(&[9; 32]).public();
            let url: RelayUrl = "https://relay.example.org./".parse().unwrap();
            let mut h = RelayRecvHarness::new(me, 64);
            let flag = Arc::new(Flag { woken: AtomicBool::new(true), wakes: AtomicU64::new(0) });
            let waker = Waker::from(flag.clone());
            // expected: per arrival, the datagrams that fit the buffer, in order
            let mut expected: Vec<(u8, Vec<u8>)> = vec![];
            let mut dropped_expected = 0u64;
            let mut total_datagrams = 0u64;
            let mut observed: Vec<(u8, Vec<u8>)> = vec![];
            let mut polls = 0u64;
            let buf_len = case.buf_len as usize;
            let src_key = |s: u8| SecretKey::from_bytes(&[0x30 + s; 32]).public();
            let poll_budget = |total: u64| 4 * total + 4 * case.arrivals.len() as u64 + 32;
            // noq-like poller: loops until Pending, only when woken
            let mut run_poller = |h: &mut RelayRecvHarness, observed: &mut Vec<(u8, Vec<u8>)>, polls: &mut u64, total: u64| -> Result<(), (String, String)> {
                while flag.woken.swap(false, Ordering::SeqCst) {
                    loop {
                        *polls += 1;
                        if *polls > poll_budget(total) {
                            return Err((
                                "receive-path-wedged-busy-loop".into(),
                                format!("{} polls for {} queued datagrams (buffer {} bytes): poll_recv keeps returning without consuming input", *polls, total, buf_len),
                            ));
                        }
                        let mut cx = Context::from_waker(&waker);
                        match h.poll_recv(&mut cx, case.n_bufs as usize, buf_len) {
                            Poll::Pending => break,
                            Poll::Ready(Err(e)) => return Err(("poll-recv-error".into(), e.to_string())),
                            Poll::Ready(Ok(outs)) => {
                                if outs.is_empty() {
                                    return Err(("ready-with-zero-messages".into(), "poll_recv returned Ready(0)".into()));
                                }
                                for o in outs {
                                    let src = (0..2u8).find(|s| Some(src_key(*s)) == o.src).unwrap_or(255);
                                    ctx.ev(format!("recv src={src} len={} stride={}", o.data.len(), o.stride));
                                    if o.data.is_empty() || o.stride == 0 {
                                        return Err((
                                            "empty-or-zero-stride-datagram-delivered".into(),
                                            format!("poll_recv handed QUIC a message with len {} stride {} (buffer {} bytes)", o.data.len(), o.stride, buf_len),
                                        ));
                                    }
                                    if o.url.as_ref() != Some(&url) || src == 255 {
                                        return Err(("wrong-source".into(), format!("{:?} {:?}", o.url, o.src)));
                                    }
                                    for chunk in o.data.chunks(o.stride) {
                                        observed.push((src, chunk.to_vec()));
                                    }
                                }
                            }
                        }
                    }
                }
                Ok(())
            };
            for (i, a) in case.arrivals.iter().enumerate() {
                let data = contents(i as u32, a.len as usize);
                let seg = a.seg.and_then(NonZeroU16::new);
                match seg {
                    Some(s) => {
                        for chunk in data.chunks(u16::from(s) as usize) {
                            total_datagrams += 1;
                            if chunk.len() <= buf_len {
                                expected.push((a.src, chunk.to_vec()));
                            } else {
                                dropped_expected += 1;
                            }
                        }
                    }
                    None => {
                        total_datagrams += 1;
                        if data.len() <= buf_len {
                            expected.push((a.src, data.clone()));
                        } else {
                            dropped_expected += 1;
                        }
                    }
                }
                // the remote chooses the segment size freely (also larger than the contents)
                let seg_wire = seg;
                ctx.ev(format!("push #{i} src={} len={} seg={:?}", a.src, a.len, seg_wire));
                let ok = h.push(url.clone(), src_key(a.src), Datagrams { ecn: None, segment_size: seg_wire, contents: Bytes::from(data) });
                if !ok {
                    ctx.violate("harness-queue-full", "queue capacity exceeded".to_string());
                    return;
                }
                yields(1).await;
                if a.poll_after {
                    if let Err((c, d)) = run_poller(&mut h, &mut observed, &mut polls, total_datagrams) {
                        ctx.violate(c, d);
                        return;
                    }
                }
            }
            // arrivals stopped: the poller reacts to wake-ups until quiet
            for _ in 0..4 {
                yields(2).await;
                if let Err((c, d)) = run_poller(&mut h, &mut observed, &mut polls, total_datagrams) {
                    ctx.violate(c, d);
                    return;
                }
            }
            ctx.add("probe.datagrams_expected_dropped_oversize", dropped_expected);
            // ---- oracle ----
            let common = observed.iter().zip(expected.iter()).take_while(|(a, b)| a == b).count();
            if observed.len() > common {
                let (s, d) = &observed[common];
                let class = if expected.iter().any(|e| e == &observed[common]) { "datagram-out-of-order-or-duplicated" } else { "unexpected-datagram-delivered" };
                ctx.violate(class, format!("delivery #{common}: src {s} len {} does not match the expected next datagram (expected {} total, delivered {})", d.len(), expected.len(), observed.len()));
                return;
            }
            if observed.len() < expected.len() {
                // the poller went quiet (no wake-up pending) with deliverable input still queued
                ctx.violate(
                    "pending-without-wakeup-deliverable-input-queued",
                    format!("poller is parked without a wake-up after {} polls; delivered {} of {} deliverable datagrams (buffer {} bytes, {} oversize datagrams to drop)", polls, observed.len(), expected.len(), buf_len, dropped_expected),
                );
                return;
            }
            if dropped_expected > 0 {
                ctx.count("probe.run_with_oversize_datagram");
                ctx.add("fault.oversize_datagram", dropped_expected);
            }
            if expected.len() >= 3 {
                ctx.nontrivial();
            }
        });
    }

    fn shrink_case(&self, case: &Case) -> Vec<Case> {
        let mut out = vec![];
        for a in fw::shrink_vec(&case.arrivals) {
            if a.is_empty() {
                continue;
            }
            let mut c = case.clone();
            c.arrivals = a;
            out.push(c);
        }
        if case.n_bufs > 1 {
            let mut c = case.clone();
            c.n_bufs = 1;
            out.push(c);
        }
        for i in 0..case.arrivals.len() {
            let a = &case.arrivals[i];
            if a.len > 4000 {
                let mut c = case.clone();
                c.arrivals[i].len = a.len / 2;
                out.push(c);
            }
        }
        out
    }
}

impl Property for C17 {
    fn id(&self) -> &'static str {
        "C17"
    }
    fn rule(&self) -> String {
        "case = (receive buffer length 1200..94208, 1..8 buffers, 1..10 arriving batches with contents 1..65535 bytes, segment size none / 1..65535 incl. buffer length +-1 and non-dividing sizes, two sources, poller turn after an arrival or not); the poller polls until Pending and re-polls only when its waker fired; non-trivial = at least 3 deliverable datagrams; distinct = distinct history hash".into()
    }
    fn assumptions(&self) -> Vec<String> {
        vec![
            "empty datagram contents are not generated (a conforming relay never forwards them)".into(),
        ]
    }
    fn real_vs_stub(&self) -> Value {
        json!({"real": ["socket::transports::relay::RelayTransport::{poll_recv, poll_recv_queue}", "iroh_relay::protos::relay::Datagrams::take_segments", "tokio mpsc receive queue + waker"], "stub": ["ActiveRelayActor (harness pushes into the same queue)", "noq endpoint driver (waker-driven poller)"]})
    }
    fn runs(&self, tier: Tier) -> u64 {
        match tier {
            Tier::Quick => 30_000,
            Tier::Thorough => 3_000_000,
        }
    }
    fn generate(&self, seed: u64, tier: Tier) -> Value {
        fw::typed_generate(self, seed, tier)
    }
    fn execute(&self, case: &Value, ctx: &Ctx) {
        fw::typed_execute(self, case, ctx)
    }
    fn shrink(&self, case: &Value) -> Vec<Value> {
        fw::typed_shrink(self, case)
    }
}
