//! C09 — Relay per-client receive rate stays within the configured bucket.
//!
//! Two layers, one seed:
//!  (a) the real `RateLimited` reader (through `streams::verif::RateLimitedReader`, constructed by
//!      the same `from_watcher` the accept path uses) over a scripted byte source on the virtual
//!      clock, with live reconfiguration between reads;
//!  (b) the public `Bucket` driven directly with extreme parameters.
//! Both are compared with a reference model of the documented token-bucket semantics in i128.

use std::{
    io,
    num::NonZeroU32,
    pin::Pin,
    sync::{Arc, Mutex},
    task::{Context, Poll, Waker},
    time::Duration,
};

use iroh_relay::server::{
    ClientRateLimit,
    streams::{Bucket, verif::RateLimitedReader},
};
use serde::{Deserialize, Serialize};
use serde_json::{Value, json};
use tokio::{
    io::{AsyncRead, AsyncReadExt, ReadBuf},
    sync::watch,
};

use crate::fw::{self, Ctx, Property, Rng, Tier, Typed, rt::run_e1};

pub struct C09;

#[derive(Clone, Debug, Serialize, Deserialize, PartialEq)]
pub enum Cfg {
    None,
    /// (bytes_per_second, max_burst_bytes or 0 = default)
    Limit(u32, u32),
}

#[derive(Clone, Debug, Serialize, Deserialize, PartialEq)]
pub enum Op {
    Read(u32),
    Sleep(u64),
    SetConfig(Cfg),
}

#[derive(Clone, Debug, Serialize, Deserialize)]
pub struct StreamCase {
    pub initial: Cfg,
    /// None = source always has data; Some(list of (at_ms, bytes))
    pub arrivals: Option<Vec<(u64, u32)>>,
    pub ops: Vec<Op>,
}

#[derive(Clone, Debug, Serialize, Deserialize)]
pub struct BucketCase {
    pub max: i64,
    pub bps: i64,
    pub period_ms: u64,
    /// (advance ms, consume bytes)
    pub steps: Vec<(u64, u64)>,
}

#[derive(Clone, Debug, Serialize, Deserialize)]
pub enum Case {
    Stream(StreamCase, u64),
    Bucket(BucketCase, u64),
}

// ---------------- reference model ----------------

#[derive(Debug, Clone)]
struct Model {
    fill: i128,
    max: i128,
    refill: i128,
    period: u64,
    last_fill: u64,
}

impl Model {
    fn new(max: i128, bps: i128, period_ms: u64, now: u64) -> Option<Self> {
        let refill = bps * period_ms as i128 / 1000;
        if max <= 0 || bps <= 0 || period_ms == 0 || refill <= 0 {
            return None;
        }
        Some(Model { fill: max, max, refill, period: period_ms, last_fill: now })
    }
    fn from_cfg(c: &Cfg, now: u64) -> Result<Option<Self>, ()> {
        match c {
            Cfg::None => Ok(None),
            Cfg::Limit(bps, burst) => {
                let b = if *burst == 0 { *bps / 10 } else { *burst };
                Model::new(b as i128, *bps as i128, 100, now).map(Some).ok_or(())
            }
        }
    }
    fn update(&mut self, now: u64) {
        let periods = ((now - self.last_fill) / self.period).min(u32::MAX as u64);
        if periods == 0 {
            return;
        }
        self.fill = (self.fill + periods as i128 * self.refill).min(self.max);
        self.last_fill += periods * self.period;
    }
    /// Ok(()) or Err(deadline ms): the first grid instant at which at least one token is back
    fn consume(&mut self, bytes: u64, now: u64) -> Result<(), u64> {
        self.update(now);
        // documented saturation: a single request counts as at most i64::MAX bytes and the debt
        // saturates at i64::MIN
        self.fill = (self.fill - (bytes.min(i64::MAX as u64)) as i128).max(i64::MIN as i128);
        if self.fill > 0 {
            return Ok(());
        }
        let missing = -self.fill;
        // the implementation clamps the number of periods to u32::MAX (a deadline >= 49 days away)
        let periods = (missing / self.refill + 1).min(u32::MAX as i128) as u64;
        Err(self.last_fill.saturating_add(periods.saturating_mul(self.period)))
    }
}

// ---------------- scripted byte source ----------------

#[derive(Debug, Default)]
struct SrcState {
    avail: u64,
    infinite: bool,
    waker: Option<Waker>,
    delivered: u64,
    arrived: usize,
}

#[derive(Debug, Clone)]
struct Source(Arc<Mutex<SrcState>>);

impl AsyncRead for Source {
    fn poll_read(self: Pin<&mut Self>, cx: &mut Context<'_>, buf: &mut ReadBuf<'_>) -> Poll<io::Result<()>> {
        let mut g = self.0.lock().unwrap();
        let n = if g.infinite { buf.remaining() as u64 } else { g.avail.min(buf.remaining() as u64) };
        if n == 0 {
            g.waker = Some(cx.waker().clone());
            return Poll::Pending;
        }
        if !g.infinite {
            g.avail -= n;
        }
        g.delivered += n;
        let chunk = [0xABu8; 4096];
        let mut left = n as usize;
        while left > 0 {
            let k = left.min(chunk.len());
            buf.put_slice(&chunk[..k]);
            left -= k;
        }
        Poll::Ready(Ok(()))
    }
}

fn to_limit(c: &Cfg) -> Option<ClientRateLimit> {
    match c {
        Cfg::None => None,
        Cfg::Limit(bps, burst) => {
            let mut l = ClientRateLimit::new(NonZeroU32::new((*bps).max(1)).unwrap());
            l.max_burst_bytes = NonZeroU32::new(*burst);
            Some(l)
        }
    }
}

fn gen_cfg(rng: &mut Rng, allow_invalid: bool) -> Cfg {
    if rng.chance(1, 6) {
        return Cfg::None;
    }
    let bps = match rng.below(6) {
        0 if allow_invalid => rng.range(1, 9) as u32, // refill rounds to 0 -> invalid
        1 => rng.range(10, 200) as u32,
        2 => rng.range(1000, 100_000) as u32,
        3 => rng.range(100_000, 10_000_000) as u32,
        4 => *rng.pick(&[u32::MAX, u32::MAX - 1, 1 << 31, 10, 11, 19, 20]),
        _ => rng.range(10, 50_000) as u32,
    };
    let burst = match rng.below(5) {
        0 => 0,
        1 => rng.range(1, 100) as u32,
        2 => rng.range(100, 100_000) as u32,
        3 => *rng.pick(&[1u32, u32::MAX, 1 << 31, 65_536, 1 << 20]),
        _ => (bps / 10).max(1),
    };
    Cfg::Limit(bps, burst)
}

impl Typed for C09 {
    type Case = Case;

    fn gen_case(&self, rng: &mut Rng, _tier: Tier) -> Case {
        if rng.chance(1, 3) {
            // bucket layer with extreme parameters
            let max = match rng.below(4) {
                0 => rng.range(1, 1000) as i64,
                1 => rng.range(1, 1 << 40) as i64,
                2 => *rng.pick(&[1i64, i64::MAX, i64::MAX / 2, 1 << 32, (1 << 32) - 1]),
                _ => rng.range(1, 1 << 20) as i64,
            };
            let period_ms = *rng.pick(&[1u64, 10, 100, 1000, 60_000, 86_400_000]);
            // keep bps * period_ms within i64 so the exact and the saturating refill agree
            let bps_cap = (i64::MAX as u128 / period_ms as u128).min(i64::MAX as u128) as u64;
            let bps = match rng.below(4) {
                0 => rng.range(1, 1000),
                1 => rng.range(1000, 1 << 32),
                2 => rng.edgy(1, bps_cap, &[bps_cap, bps_cap / 2, bps_cap / 1000, 1 << 40]),
                _ => rng.range(1, 1 << 20),
            }
            .min(bps_cap) as i64;
            let n = rng.range(1, 10);
            let steps = (0..n)
                .map(|_| {
                    let adv = match rng.below(5) {
                        0 => 0,
                        1 => rng.range(0, 2 * period_ms),
                        2 => rng.range(0, 100 * period_ms).min((1 << 32) - 1),
                        3 => *rng.pick(&[period_ms - 1, period_ms, period_ms + 1, 1000 * period_ms, (1u64 << 32) - 1, 1u64 << 32, (1u64 << 32) + period_ms, 1u64 << 33]),
                        _ => rng.range(0, 10_000),
                    }
                    .min(1u64 << 34);
                    let bytes = match rng.below(5) {
                        0 => 0,
                        1 => rng.range(1, 65_536),
                        2 => rng.range(1, (max as u64).saturating_mul(2).max(2)),
                        3 => *rng.pick(&[1u64, max as u64, (max as u64).saturating_add(1), u64::MAX, i64::MAX as u64]),
                        _ => rng.range(1, 2000),
                    };
                    (adv, bytes)
                })
                .collect();
            Case::Bucket(BucketCase { max, bps, period_ms, steps }, rng.next_u64())
        } else {
            let initial = loop {
                let c = gen_cfg(rng, false);
                if Model::from_cfg(&c, 0).is_ok() {
                    break c;
                }
            };
            let arrivals = if rng.coin() {
                None
            } else {
                let mut t = 0;
                Some(
                    (0..rng.range(1, 8))
                        .map(|_| {
                            t += rng.edgy(0, 3000, &[0, 1, 99, 100, 101]);
                            (t, rng.range(1, 100_000) as u32)
                        })
                        .collect(),
                )
            };
            let n = rng.range(2, 16);
            let ops = (0..n)
                .map(|_| match rng.below(10) {
                    0..=6 => Op::Read(*rng.pick(&[1u32, 16, 1024, 4096, 65_536])),
                    7..=8 => Op::Sleep(rng.edgy(0, 5000, &[0, 1, 99, 100, 101, 1000])),
                    _ => Op::SetConfig(gen_cfg(rng, true)),
                })
                .collect();
            Case::Stream(StreamCase { initial, arrivals, ops }, rng.next_u64())
        }
    }

    fn exec_case(&self, case: &Case, ctx: &Ctx) {
        match case.clone() {
            Case::Bucket(bc, seed) => {
                let ctx2 = ctx.clone();
                run_e1(seed, false, ctx, async move {
                    let ctx = ctx2;
                    let t0 = tokio::time::Instant::now();
                    let period = Duration::from_millis(bc.period_ms);
                    let bucket = Bucket::new(bc.max, bc.bps, period);
                    let model = Model::new(bc.max as i128, bc.bps as i128, bc.period_ms, 0);
                    ctx.ev(format!("bucket new max={} bps={} period_ms={} -> ok={}", bc.max, bc.bps, bc.period_ms, bucket.is_ok()));
                    let (mut bucket, mut model) = match (bucket, model) {
                        (Ok(b), Some(m)) => (b, m),
                        (Err(_), None) => return,
                        (Ok(_), None) => {
                            ctx.violate("invalid-bucket-config-accepted", format!("{bc:?}"));
                            return;
                        }
                        (Err(_), Some(_)) => {
                            ctx.violate("valid-bucket-config-rejected", format!("{bc:?}"));
                            return;
                        }
                    };
                    for (i, (adv, bytes)) in bc.steps.iter().enumerate() {
                        tokio::time::sleep(Duration::from_millis(*adv)).await;
                        let now = t0.elapsed().as_millis() as u64;
                        let n = usize::try_from(*bytes).unwrap_or(usize::MAX);
                        let got = bucket.consume(n);
                        let want = model.consume(n as u64, now);
                        let got_ms = got.map_err(|d| d.duration_since(t0).as_millis() as u64);
                        ctx.ev(format!("step {i} t={now} consume {n} -> {got_ms:?}"));
                        match (got_ms, want) {
                            (Ok(()), Ok(())) => {}
                            (Err(g), Err(w)) => {
                                if g > w {
                                    ctx.violate(
                                        "bucket-deadline-later-than-refill",
                                        format!("step {i}: consume({n}) at {now} ms: resume deadline {g} ms, bucket has refilled enough at {w} ms ({bc:?})"),
                                    );
                                    return;
                                }
                                if g < w {
                                    // an earlier deadline only means the caller re-consults the bucket
                                    // sooner (it is throttled again then); the statement bounds lateness
                                    ctx.count("probe.bucket_deadline_earlier_than_model");
                                }
                                ctx.count("probe.bucket_throttled");
                            }
                            (Ok(()), Err(w)) => {
                                ctx.violate("bucket-allows-beyond-burst-plus-refill", format!("step {i}: consume({n}) at {now} ms allowed, model throttles until {w} ({bc:?})"));
                                return;
                            }
                            (Err(g), Ok(())) => {
                                ctx.violate("bucket-throttles-with-tokens-left", format!("step {i}: consume({n}) at {now} ms throttled until {g}, model has tokens ({bc:?})"));
                                return;
                            }
                        }
                    }
                    if bc.steps.len() >= 2 {
                        ctx.nontrivial();
                    }
                });
            }
            Case::Stream(sc, seed) => {
                let ctx2 = ctx.clone();
                run_e1(seed, false, ctx, async move {
                    let ctx = ctx2;
                    let t0 = tokio::time::Instant::now();
                    let now = || t0.elapsed().as_millis() as u64;
                    let src = Source(Arc::new(Mutex::new(SrcState { infinite: sc.arrivals.is_none(), ..Default::default() })));
                    let (tx, rx) = watch::channel(to_limit(&sc.initial));
                    let mut reader = match RateLimitedReader::from_watcher(src.clone(), rx) {
                        Ok(r) => r,
                        Err(_) => {
                            ctx.violate("valid-initial-config-rejected", format!("{:?}", sc.initial));
                            return;
                        }
                    };
                    let mut model: Option<Model> = Model::from_cfg(&sc.initial, 0).unwrap();
                    // arrival task
                    let arrivals = sc.arrivals.clone().unwrap_or_default();
                    let src2 = src.clone();
                    let arrival_task = tokio::task::spawn_local(async move {
                        for (at, n) in arrivals {
                            tokio::time::sleep_until(t0 + Duration::from_millis(at)).await;
                            let mut g = src2.0.lock().unwrap();
                            g.avail += n as u64;
                            g.arrived += 1;
                            if let Some(w) = g.waker.take() {
                                w.wake();
                            }
                        }
                    });
                    let avail_time = |start: u64, gate: u64| -> Option<u64> {
                        // first instant >= gate at which the source has data, given the read began at `start`
                        if sc.arrivals.is_none() {
                            return Some(gate);
                        }
                        let g = src.0.lock().unwrap();
                        if g.avail > 0 {
                            return Some(gate);
                        }
                        let _ = start;
                        sc.arrivals.as_ref().unwrap().get(g.arrived).map(|a| a.0.max(gate))
                    };
                    let mut throttled_until: Option<u64> = None;
                    let mut pending_cfg: Option<Cfg> = None;
                    let mut effective_since = 0u64;
                    let mut bytes_since = 0u128;
                    let mut max_chunk = 0u128;
                    let mut reads = 0;
                    let mut buf = vec![0u8; 65_536];
                    for (i, op) in sc.ops.iter().enumerate() {
                        match op {
                            Op::Sleep(ms) => {
                                tokio::time::sleep(Duration::from_millis(*ms)).await;
                                ctx.ev(format!("{i} sleep {ms} t={}", now()));
                            }
                            Op::SetConfig(c) => {
                                tx.send_replace(to_limit(c));
                                pending_cfg = Some(c.clone());
                                ctx.ev(format!("{i} set-config {c:?} t={}", now()));
                                ctx.count("fault.live_reconfiguration");
                            }
                            Op::Read(sz) => {
                                let start = now();
                                // the reader observes a config change at this poll
                                if let Some(c) = pending_cfg.take() {
                                    match Model::from_cfg(&c, start) {
                                        Ok(m) => {
                                            model = m;
                                            throttled_until = None;
                                            effective_since = start;
                                            bytes_since = 0;
                                            max_chunk = 0;
                                        }
                                        Err(()) => {
                                            ctx.count("probe.invalid_live_config_ignored");
                                        }
                                    }
                                }
                                let gate = throttled_until.filter(|_| model.is_some()).unwrap_or(start).max(start);
                                let expect_done = avail_time(start, gate);
                                let cap = Duration::from_secs(3600 * 24 * 60);
                                let r = tokio::time::timeout(cap, reader.read(&mut buf[..*sz as usize])).await;
                                let done = now();
                                let n = match r {
                                    Err(_) => {
                                        if expect_done.is_some() {
                                            ctx.violate("reader-stalls-forever", format!("op {i}: read pending for 60 virtual days; expected completion at {expect_done:?} ms"));
                                        }
                                        break;
                                    }
                                    Ok(Err(e)) => {
                                        ctx.violate("reader-error", format!("{e}"));
                                        return;
                                    }
                                    Ok(Ok(n)) => n,
                                };
                                reads += 1;
                                ctx.ev(format!("{i} read {sz} -> {n} start={start} done={done}"));
                                let Some(exp) = expect_done else {
                                    ctx.violate("read-without-data", format!("op {i}: read returned {n} bytes though the source is dry"));
                                    return;
                                };
                                if done + 1 < exp {
                                    ctx.violate(
                                        "read-before-bucket-refilled",
                                        format!("op {i}: read completed at {done} ms while throttled until {gate} ms (data at {exp})"),
                                    );
                                    return;
                                }
                                if done > exp + 1 {
                                    ctx.violate(
                                        "reading-resumes-later-than-refill",
                                        format!("op {i}: read completed at {done} ms; bucket refilled / data available at {exp} ms (throttled until {throttled_until:?})"),
                                    );
                                    return;
                                }
                                throttled_until = None;
                                if let Some(m) = model.as_mut() {
                                    bytes_since += n as u128;
                                    max_chunk = max_chunk.max(n as u128);
                                    let elapsed = done - effective_since;
                                    let bound = m.max as u128 + (elapsed / 100) as u128 * m.refill as u128 + max_chunk;
                                    if bytes_since > bound {
                                        ctx.violate(
                                            "read-more-than-burst-plus-refill-plus-chunk",
                                            format!("op {i}: {bytes_since} bytes read in {elapsed} ms since the limit took effect; bound {bound} (burst {} refill {}/100ms chunk {max_chunk})", m.max, m.refill),
                                        );
                                        return;
                                    }
                                    if let Err(d) = m.consume(n as u64, done) {
                                        throttled_until = Some(d);
                                        ctx.count("probe.stream_throttled");
                                    }
                                }
                            }
                        }
                    }
                    arrival_task.abort();
                    if reads >= 3 {
                        ctx.nontrivial();
                    }
                });
            }
        }
    }

    fn shrink_case(&self, case: &Case) -> Vec<Case> {
        match case {
            Case::Bucket(b, s) => fw::shrink_vec(&b.steps)
                .into_iter()
                .filter(|v| !v.is_empty())
                .map(|steps| Case::Bucket(BucketCase { steps, ..b.clone() }, *s))
                .collect(),
            Case::Stream(sc, s) => {
                let mut out = vec![];
                for ops in fw::shrink_vec(&sc.ops) {
                    if ops.is_empty() {
                        continue;
                    }
                    out.push(Case::Stream(StreamCase { ops, ..sc.clone() }, *s));
                }
                if sc.arrivals.is_some() {
                    out.push(Case::Stream(StreamCase { arrivals: None, ..sc.clone() }, *s));
                }
                out
            }
        }
    }
}

impl Property for C09 {
    fn id(&self) -> &'static str {
        "C09"
    }
    fn rule(&self) -> String {
        "case = either (a) stream: initial limit (rate 10..2^32-1 B/s, burst 1..2^32-1 or default), always-ready or bursty byte source, 2..16 ops from {read with buffer 1..64 KiB, sleep, live set-config incl. None and invalid}; or (b) public Bucket with max up to i64::MAX, rate up to i64::MAX/period, period 1 ms..1 day, 1..10 (advance, consume) steps with byte counts up to u64::MAX; non-trivial = >=3 reads or >=2 bucket steps; distinct = distinct history hash".into()
    }
    fn assumptions(&self) -> Vec<String> {
        vec![
            "live config changes are issued between reads; a change arriving while a read is parked on the refill timer is only observed when that timer fires (not flagged, see DESIGN.md)".into(),
            "refill periods >= 2^32 ms are not generated; a single consume counts as at most i64::MAX bytes and the debt saturates at i64::MIN (the implementation's documented saturating arithmetic)".into(),
            "bucket-layer parameters keep rate*period_ms within i64 so that the saturating and exact refill agree".into(),
        ]
    }
    fn real_vs_stub(&self) -> Value {
        json!({"real": ["server::streams::RateLimited::{from_watcher, poll_read}", "server::streams::Bucket::{new, from_config, update_state, consume}", "tokio::sync::watch live config"], "stub": ["client byte stream (scripted AsyncRead source)", "clock"]})
    }
    fn runs(&self, tier: Tier) -> u64 {
        match tier {
            Tier::Quick => 40_000,
            Tier::Thorough => 3_000_000,
        }
    }
    fn generate(&self, seed: u64, tier: Tier) -> Value {
        fw::typed_generate(self, seed, tier)
    }
    fn execute(&self, case: &Value, ctx: &Ctx) {
        fw::typed_execute(self, case, ctx)
    }
    fn shrink(&self, case: &Value) -> Vec<Value> {
        fw::typed_shrink(self, case)
    }
}
