//! C14 — Relay keep-alive pings: only the latest ping counts.
//!
//! Subject: public `iroh_relay::PingTracker` on the virtual clock. Workload: seeded sequences of
//! new_ping / new_ping_with_timeout / pong (latest, stale, forged) / time advance / waiting on
//! `timeout()` with a budget (the wait is dropped when the budget expires: cancel-safety).

use std::time::Duration;

use iroh_relay::PingTracker;
use serde::{Deserialize, Serialize};
use serde_json::{Value, json};

use crate::fw::{self, Ctx, Property, Rng, Tier, Typed, rt::run_e1};

pub struct C14;

#[derive(Clone, Debug, Serialize, Deserialize, PartialEq)]
pub enum Op {
    NewPing,
    NewPingWithTimeout(u64),
    PongLatest,
    /// pong carrying the payload of the k-th ping issued so far (mod count)
    PongStale(usize),
    PongForged(u64),
    Advance(u64),
    /// poll `timeout()` for at most this many ms, then drop it
    WaitTimeout(u64),
}

#[derive(Clone, Debug, Serialize, Deserialize)]
pub struct Case {
    pub max_timeout_ms: u64,
    pub ops: Vec<Op>,
    pub seed: u64,
}

#[derive(Clone, Debug)]
struct MPing {
    data: [u8; 8],
    deadline: u64,
    sent_at: u64,
}

const MIN_MS: u64 = 500;

impl Typed for C14 {
    type Case = Case;

    fn gen_case(&self, rng: &mut Rng, _tier: Tier) -> Case {
        let max_timeout_ms = rng.edgy(500, 60_000, &[500, 501, 1500, 5000, 60_000]);
        let n = rng.range(3, 24) as usize;
        let mut ops = vec![];
        for _ in 0..n {
            let op = match rng.below(16) {
                0..=2 => Op::NewPing,
                3 => Op::NewPingWithTimeout(rng.edgy(0, 20_000, &[0, 1, 499, 500, 5000])),
                4..=6 => Op::PongLatest,
                7..=8 => Op::PongStale(rng.range(0, 8) as usize),
                9 => Op::PongForged(rng.next_u64()),
                10..=12 => Op::Advance(rng.edgy(
                    0,
                    2 * max_timeout_ms,
                    &[0, 1, 166, 167, 499, 500, 501, max_timeout_ms / 3, max_timeout_ms / 3 + 1, max_timeout_ms - 1, max_timeout_ms, max_timeout_ms + 1],
                )),
                _ => Op::WaitTimeout(rng.edgy(
                    0,
                    2 * max_timeout_ms,
                    &[0, 1, 499, 500, 501, max_timeout_ms - 1, max_timeout_ms, max_timeout_ms + 1],
                )),
            };
            ops.push(op);
        }
        Case {
            max_timeout_ms,
            ops,
            seed: rng.next_u64(),
        }
    }

    fn exec_case(&self, case: &Case, ctx: &Ctx) {
        let case = case.clone();
        let ctx2 = ctx.clone();
        run_e1(case.seed, false, ctx, async move {
            let ctx = ctx2;
            let t0 = tokio::time::Instant::now();
            let now = || t0.elapsed().as_millis() as u64;
            let mut tracker = PingTracker::new(Duration::from_millis(case.max_timeout_ms));
            // model
            let mut latest: Option<MPing> = None;
            let mut last_rtt: Option<u64> = None;
            let mut issued: Vec<[u8; 8]> = vec![];
            let mut stale_pongs = 0;
            let mut fired = 0;
            let model_timeout = |last_rtt: Option<u64>| -> u64 {
                match last_rtt {
                    Some(r) => (3 * r).clamp(MIN_MS, case.max_timeout_ms),
                    None => case.max_timeout_ms,
                }
            };
            for (i, op) in case.ops.iter().enumerate() {
                match op {
                    Op::NewPing => {
                        let d = tracker.new_ping();
                        let to = model_timeout(last_rtt);
                        latest = Some(MPing { data: d, deadline: now() + to, sent_at: now() });
                        issued.push(d);
                        ctx.ev(format!("{i} new_ping t={} timeout={to}", now()));
                    }
                    Op::NewPingWithTimeout(ms) => {
                        let d = tracker.new_ping_with_timeout(Duration::from_millis(*ms));
                        latest = Some(MPing { data: d, deadline: now() + ms, sent_at: now() });
                        issued.push(d);
                        ctx.ev(format!("{i} new_ping_with_timeout t={} timeout={ms}", now()));
                    }
                    Op::PongLatest => {
                        if let Some(d) = issued.last().copied() {
                            tracker.pong_received(d);
                            if let Some(l) = &latest {
                                if l.data == d {
                                    last_rtt = Some(now() - l.sent_at);
                                    latest = None;
                                    ctx.ev(format!("{i} pong latest t={} rtt={:?}", now(), last_rtt));
                                } else {
                                    ctx.ev(format!("{i} pong for superseded t={}", now()));
                                }
                            } else {
                                ctx.ev(format!("{i} pong but nothing outstanding t={}", now()));
                            }
                        }
                    }
                    Op::PongStale(k) => {
                        if issued.len() >= 2 {
                            let idx = k % (issued.len() - 1);
                            let d = issued[idx];
                            if latest.as_ref().map(|l| l.data) != Some(d) {
                                tracker.pong_received(d);
                                stale_pongs += 1;
                                ctx.ev(format!("{i} pong stale #{idx} t={}", now()));
                            }
                        }
                    }
                    Op::PongForged(x) => {
                        let d = x.to_le_bytes();
                        if latest.as_ref().map(|l| l.data) != Some(d) {
                            tracker.pong_received(d);
                            stale_pongs += 1;
                            ctx.ev(format!("{i} pong forged t={}", now()));
                        }
                    }
                    Op::Advance(ms) => {
                        tokio::time::sleep(Duration::from_millis(*ms)).await;
                        ctx.ev(format!("{i} advance {ms} t={}", now()));
                    }
                    Op::WaitTimeout(budget) => {
                        let before = now();
                        let r = tokio::time::timeout(Duration::from_millis(*budget), tracker.timeout()).await;
                        let after = now();
                        let expect_fire = latest.as_ref().filter(|l| l.deadline <= before + budget).cloned();
                        match (r.is_ok(), expect_fire) {
                            (true, Some(l)) => {
                                let want = l.deadline.max(before);
                                if after != want {
                                    ctx.violate(
                                        "timeout-fired-at-wrong-time",
                                        format!("op {i}: latest ping deadline {} ms, wait began {before}, fired at {after}", l.deadline),
                                    );
                                    return;
                                }
                                latest = None;
                                fired += 1;
                                ctx.ev(format!("{i} timeout fired t={after}"));
                            }
                            (false, None) => {
                                if after != before + budget {
                                    ctx.violate("harness-time", format!("budget wait ended at {after}, expected {}", before + budget));
                                    return;
                                }
                                ctx.ev(format!("{i} timeout not fired within {budget} t={after}"));
                            }
                            (true, None) => {
                                ctx.violate(
                                    "declared-dead-without-overdue-latest-ping",
                                    format!("op {i}: timeout() completed at {after} ms but model latest ping is {latest:?} (wait began {before}, budget {budget})"),
                                );
                                return;
                            }
                            (false, Some(l)) => {
                                ctx.violate(
                                    "overdue-latest-ping-not-declared-dead",
                                    format!("op {i}: latest ping deadline {} ms passed within the wait [{before},{}] but timeout() did not complete", l.deadline, before + budget),
                                );
                                return;
                            }
                        }
                    }
                }
                let got = tracker.ping_timeout().as_millis() as u64;
                let want = model_timeout(last_rtt);
                if got != want {
                    ctx.violate(
                        "ping-timeout-not-3x-rtt-clamped",
                        format!("after op {i} {op:?}: ping_timeout() = {got} ms, model {want} ms (last rtt {last_rtt:?}, max {})", case.max_timeout_ms),
                    );
                    return;
                }
            }
            if stale_pongs > 0 && fired > 0 {
                ctx.nontrivial();
            }
            if stale_pongs > 0 {
                ctx.count("probe.stale_or_forged_pong_fed");
                ctx.count("fault.stale_or_forged_pong");
            }
            if fired > 0 {
                ctx.count("probe.timeout_fired");
                ctx.count("fault.pong_withheld_past_timeout");
            }
            if let Some(r) = last_rtt {
                if 3 * r < MIN_MS {
                    ctx.count("probe.clamped_low");
                } else if 3 * r > case.max_timeout_ms {
                    ctx.count("probe.clamped_high");
                } else {
                    ctx.count("probe.unclamped_3x");
                }
            }
        });
    }

    fn shrink_case(&self, case: &Case) -> Vec<Case> {
        let mut out = vec![];
        for ops in fw::shrink_vec(&case.ops) {
            let mut c = case.clone();
            c.ops = ops;
            out.push(c);
        }
        for (i, op) in case.ops.iter().enumerate() {
            let simpler = match op {
                Op::Advance(ms) if *ms > 1 => Some(Op::Advance(ms / 2)),
                Op::WaitTimeout(ms) if *ms > 1 => Some(Op::WaitTimeout(ms / 2)),
                Op::NewPingWithTimeout(_) => Some(Op::NewPing),
                _ => None,
            };
            if let Some(s) = simpler {
                let mut c = case.clone();
                c.ops[i] = s;
                out.push(c);
            }
        }
        out
    }
}

impl Property for C14 {
    fn id(&self) -> &'static str {
        "C14"
    }
    fn rule(&self) -> String {
        "case = (max_timeout in [500 ms, 60 s], 3..24 ops from {new_ping, new_ping_with_timeout(d), pong latest/stale/forged, advance(d), wait on timeout() with budget then drop}); durations boundary-biased around 500 ms, max/3 and max; non-trivial = at least one stale/forged pong was fed and at least one timeout fired; distinct = distinct history hash".into()
    }
    fn assumptions(&self) -> Vec<String> {
        vec![
            "max_timeout < 500 ms (clamp(min > max) panics) is outside the statement's 'configured bounds' and not generated".into(),
            "a forged pong equal to the outstanding 8 random bytes (2^-64) is not generated".into(),
        ]
    }
    fn real_vs_stub(&self) -> Value {
        json!({"real": ["iroh_relay::PingTracker"], "stub": ["clock (tokio paused)", "entropy for ping payloads (seeded getrandom)"]})
    }
    fn runs(&self, tier: Tier) -> u64 {
        match tier {
            Tier::Quick => 60_000,
            Tier::Thorough => 5_000_000,
        }
    }
    fn generate(&self, seed: u64, tier: Tier) -> Value {
        fw::typed_generate(self, seed, tier)
    }
    fn execute(&self, case: &Value, ctx: &Ctx) {
        fw::typed_execute(self, case, ctx)
    }
    fn shrink(&self, case: &Value) -> Vec<Value> {
        fw::typed_shrink(self, case)
    }
}
