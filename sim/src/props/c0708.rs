//! C07 (access control sees exactly one disconnect per admitted connection — fault enumeration) and
//! C08 (a revoked connection does not stay connected) over the real `Inner::accept` path:
//! RateLimited -> tokio-websockets server -> handshake::serverside -> authorize_with -> register,
//! driven through `RelayService::verif_accept` on a `BytePipe`; the client side is a real
//! tokio-websockets client running the real `clientside` handshake.

use std::{
    collections::BTreeMap,
    future::Future,
    pin::Pin,
    sync::{Arc, Mutex},
    task::{Context, Poll},
    time::Duration,
};

use bytes::Bytes;
use http::HeaderMap;
use iroh_base::{EndpointId, SecretKey};
use iroh_relay::{
    ExportKeyingMaterial, KeyCache,
    http::ProtocolVersion,
    protos::handshake,
    server::{
        Access, AccessControl, ClientRequest, ConnectionId, Metrics,
        http_server::{Handlers, RelayService},
        streams::{MaybeTlsStream, verif::SimIo},
    },
};
use n0_error::AnyError;
use n0_future::{Sink, SinkExt, Stream, StreamExt};
use serde::{Deserialize, Serialize};
use serde_json::{Value, json};
use tokio::io::{AsyncRead, AsyncWrite, ReadBuf};

use crate::fw::{
    self, Ctx, Property, Rng, Tier, Typed,
    bytepipe::{FaultKind, PipeEnd, byte_pipe},
    rt::{E1Hook, run_e1, yields},
};

// ---------- SimIo for the byte pipe ----------

#[derive(Debug)]
struct SimConn(PipeEnd);

impl AsyncRead for SimConn {
    fn poll_read(mut self: Pin<&mut Self>, cx: &mut Context<'_>, buf: &mut ReadBuf<'_>) -> Poll<std::io::Result<()>> {
        Pin::new(&mut self.0).poll_read(cx, buf)
    }
}
impl AsyncWrite for SimConn {
    fn poll_write(mut self: Pin<&mut Self>, cx: &mut Context<'_>, b: &[u8]) -> Poll<std::io::Result<usize>> {
        Pin::new(&mut self.0).poll_write(cx, b)
    }
    fn poll_flush(mut self: Pin<&mut Self>, cx: &mut Context<'_>) -> Poll<std::io::Result<()>> {
        Pin::new(&mut self.0).poll_flush(cx)
    }
    fn poll_shutdown(mut self: Pin<&mut Self>, cx: &mut Context<'_>) -> Poll<std::io::Result<()>> {
        Pin::new(&mut self.0).poll_shutdown(cx)
    }
}
impl SimIo for SimConn {
    fn sim_export_keying_material(&self, output: &mut [u8], label: &[u8], context: Option<&[u8]>) -> bool {
        self.0.export(output, label, context)
    }
}

// ---------- websocket client adapter (BytesStreamSink) ----------

struct WsClient {
    io: tokio_websockets::WebSocketStream<PipeEnd>,
}

impl Stream for WsClient {
    type Item = Result<Bytes, AnyError>;
    fn poll_next(mut self: Pin<&mut Self>, cx: &mut Context<'_>) -> Poll<Option<Self::Item>> {
        loop {
            match futures_util::ready!(Pin::new(&mut self.io).poll_next(cx)) {
                None => return Poll::Ready(None),
                Some(Err(e)) => return Poll::Ready(Some(Err(AnyError::from_std(e)))),
                Some(Ok(msg)) => {
                    if msg.is_close() {
                        return Poll::Ready(None);
                    }
                    if !msg.is_binary() {
                        continue;
                    }
                    return Poll::Ready(Some(Ok(msg.into_payload().into())));
                }
            }
        }
    }
}

impl Sink<Bytes> for WsClient {
    type Error = AnyError;
    fn poll_ready(mut self: Pin<&mut Self>, cx: &mut Context<'_>) -> Poll<Result<(), AnyError>> {
        Pin::new(&mut self.io).poll_ready(cx).map_err(AnyError::from_std)
    }
    fn start_send(mut self: Pin<&mut Self>, item: Bytes) -> Result<(), AnyError> {
        let msg = tokio_websockets::Message::binary(tokio_websockets::Payload::from(item));
        Pin::new(&mut self.io).start_send(msg).map_err(AnyError::from_std)
    }
    fn poll_flush(mut self: Pin<&mut Self>, cx: &mut Context<'_>) -> Poll<Result<(), AnyError>> {
        Pin::new(&mut self.io).poll_flush(cx).map_err(AnyError::from_std)
    }
    fn poll_close(mut self: Pin<&mut Self>, cx: &mut Context<'_>) -> Poll<Result<(), AnyError>> {
        Pin::new(&mut self.io).poll_close(cx).map_err(AnyError::from_std)
    }
}

impl ExportKeyingMaterial for WsClient {
    fn export_keying_material<T: AsMut<[u8]>>(&self, mut output: T, label: &[u8], context: Option<&[u8]>) -> Option<T> {
        self.io.get_ref().export(output.as_mut(), label, context).then_some(output)
    }
}

// ---------- access control recorder ----------

#[derive(Debug, Clone, PartialEq)]
enum AcEvent {
    ConnectBegin(u64),
    ConnectEnd(u64, bool),
    Disconnect(u64),
}

#[derive(Debug)]
struct SimAccess {
    /// allow/deny per on_connect call index
    plan: Vec<bool>,
    delays_ms: Vec<u64>,
    calls: Mutex<usize>,
    log: Mutex<Vec<AcEvent>>,
    /// map ConnectionId (as displayed) -> per-run index
    ids: Mutex<Vec<(ConnectionId, EndpointId)>>,
    ctx: Ctx,
    admitted_notify: tokio::sync::Notify,
}

impl SimAccess {
    fn idx(&self, id: ConnectionId, ep: EndpointId) -> u64 {
        let mut g = self.ids.lock().unwrap();
        if let Some(i) = g.iter().position(|x| x.0 == id) {
            return i as u64;
        }
        g.push((id, ep));
        (g.len() - 1) as u64
    }
}

impl AccessControl for SimAccess {
    async fn on_connect(&self, request: &ClientRequest) -> Access {
        let k = {
            let mut c = self.calls.lock().unwrap();
            let k = *c;
            *c += 1;
            k
        };
        let pre_existing = self.ids.lock().unwrap().iter().any(|x| x.0 == request.connection_id());
        let i = self.idx(request.connection_id(), request.endpoint_id());
        if pre_existing {
            self.ctx.violate("connection-id-reused", format!("on_connect call {k} reports connection id already seen (#{i})"));
        }
        self.log.lock().unwrap().push(AcEvent::ConnectBegin(i));
        self.ctx.ev(format!("access on_connect begin conn#{i}"));
        let d = self.delays_ms.get(k).copied().unwrap_or(0);
        if d > 0 {
            tokio::time::sleep(Duration::from_millis(d)).await;
        } else {
            tokio::task::yield_now().await;
        }
        let allow = self.plan.get(k).copied().unwrap_or(true);
        self.log.lock().unwrap().push(AcEvent::ConnectEnd(i, allow));
        self.ctx.ev(format!("access on_connect end conn#{i} allow={allow}"));
        if allow {
            self.admitted_notify.notify_waiters();
            Access::Allow
        } else {
            Access::Deny { reason: Some("sim".into()) }
        }
    }

    fn on_disconnect(&self, endpoint_id: EndpointId, connection_id: ConnectionId) {
        let i = self.idx(connection_id, endpoint_id);
        self.log.lock().unwrap().push(AcEvent::Disconnect(i));
        self.ctx.ev(format!("access on_disconnect conn#{i}"));
    }
}

// ---------- cancel-after-j-polls wrapper ----------

struct CancelAfter<F> {
    fut: Option<Pin<Box<F>>>,
    polls: u64,
    cancel_at: Option<u64>,
    counter: Arc<Mutex<u64>>,
}

impl<F: Future> Future for CancelAfter<F> {
    type Output = Option<F::Output>;
    fn poll(mut self: Pin<&mut Self>, cx: &mut Context<'_>) -> Poll<Self::Output> {
        let this = &mut *self;
        if let Some(c) = this.cancel_at {
            if this.polls >= c {
                this.fut = None; // drop the accept future mid-flight
                return Poll::Ready(None);
            }
        }
        this.polls += 1;
        *this.counter.lock().unwrap() = this.polls;
        let Some(f) = this.fut.as_mut() else { return Poll::Ready(None) };
        match f.as_mut().poll(cx) {
            Poll::Ready(v) => {
                this.fut = None;
                Poll::Ready(Some(v))
            }
            Poll::Pending => Poll::Pending,
        }
    }
}

// ---------- script ----------

#[derive(Clone, Debug, Serialize, Deserialize, PartialEq)]
pub enum End {
    ClientClose,
    ClientReset,
    AdminDisconnectConn,
    AdminDisconnectEndpoint,
    /// nothing: ended by the final service shutdown
    None,
}

#[derive(Clone, Debug, Serialize, Deserialize)]
pub struct Attempt {
    pub key: u8,
    pub allow: bool,
    pub on_connect_delay_ms: u64,
    pub v1: bool,
    pub end: End,
    pub send_header: bool,
    pub keying: bool,
    pub max_chunk: u32,
    pub wouldblock_pm: u32,
}

#[derive(Clone, Debug, Serialize, Deserialize, PartialEq)]
pub enum Revoke {
    /// revoke k yields after admission (on_connect returned Allow)
    AfterAdmission { yields: u32, by_endpoint: bool },
    /// revoke after accept() returned
    AfterRegistration { delay_ms: u64, by_endpoint: bool },
}

#[derive(Clone, Debug, Serialize, Deserialize)]
pub struct Case {
    pub attempts: Vec<Attempt>,
    /// C08 only: revoke the last attempt's connection at this point
    pub revoke: Option<Revoke>,
    pub pre_register_yields: u32,
    pub final_shutdown: bool,
    /// C08: while the revocation is issued, another connected client keeps sending datagrams to the
    /// revoked connection (steady inbound traffic), and the revoked client keeps reading
    #[serde(default)]
    pub flood: bool,
    pub seed: u64,
}

#[derive(Clone, Copy, Debug, PartialEq)]
enum Fault {
    None,
    Io { attempt: usize, op: u64, kind: FaultKind },
    Cancel { attempt: usize, poll: u64 },
}

#[derive(Default, Debug)]
struct RunInfo {
    server_ops: Vec<u64>,
    accept_polls: Vec<u64>,
    violation: Option<(String, String)>,
    fault_fired: bool,
    revoked_conn: Option<u64>,
}

fn secret(k: u8) -> SecretKey {
    SecretKey::from_bytes(&[0x40 + k; 32])
}

/// Executes the script once with (at most) one injected fault.
fn run_once(case: &Case, fault: Fault, ctx: &Ctx, check_revoke: bool) -> RunInfo {
    let case = case.clone();
    let ctx2 = ctx.clone();
    let info = Arc::new(Mutex::new(RunInfo::default()));
    let info2 = info.clone();
    let hook = E1Hook::install(ctx, case.seed, &[("relay.accept.before_register", case.pre_register_yields)]);
    run_e1(case.seed, false, ctx, async move {
        let ctx = ctx2;
        let info = info2;
        let access = Arc::new(SimAccess {
            plan: case.attempts.iter().map(|a| a.allow).collect(),
            delays_ms: case.attempts.iter().map(|a| a.on_connect_delay_ms).collect(),
            calls: Mutex::new(0),
            log: Mutex::new(vec![]),
            ids: Mutex::new(vec![]),
            ctx: ctx.clone(),
            admitted_notify: tokio::sync::Notify::new(),
        });
        let service = RelayService::new(
            Handlers::default(),
            HeaderMap::new(),
            None,
            KeyCache::new(0),
            access.clone(),
            Arc::new(Metrics::default()),
        );
        let n = case.attempts.len();
        let mut clients: Vec<Option<WsClient>> = vec![];
        let flood_stop = Arc::new(std::sync::atomic::AtomicBool::new(false));
        let victim_ended = Arc::new(std::sync::atomic::AtomicBool::new(false));
        let mut flooding = false;
        let mut accepted: Vec<bool> = vec![];
        for (ai, a) in case.attempts.iter().enumerate() {
            let (mut server_end, mut client_end) = byte_pipe(case.seed ^ ai as u64);
            if a.keying {
                server_end.keying = Some([0x77; 32]);
                client_end.keying = Some([0x77; 32]);
            }
            {
                let st = server_end.state();
                let mut g = st.lock().unwrap();
                g.max_chunk = if a.max_chunk == 0 { usize::MAX } else { a.max_chunk as usize };
                g.wouldblock_pm = a.wouldblock_pm;
                if let Fault::Io { attempt, op, kind } = fault {
                    if attempt == ai {
                        g.fault_at = Some((op, kind));
                    }
                }
            }
            let server_state = server_end.state();
            let server_tx = server_end.tx_chan();
            let sk = secret(a.key);
            let mut ws = WsClient {
                io: tokio_websockets::ClientBuilder::new().take_over(client_end),
            };
            let mut parts = http::Request::builder().uri("/relay").body(()).unwrap().into_parts().0;
            if a.send_header {
                if let Some(h) = handshake::verif::client_auth_header(&sk, &ws) {
                    parts.headers.insert(iroh_relay::http::CLIENT_AUTH_HEADER, h);
                }
            }
            let version = if a.v1 { ProtocolVersion::V1 } else { ProtocolVersion::V2 };
            let svc = service.clone();
            let counter = Arc::new(Mutex::new(0u64));
            let cancel_at = match fault {
                Fault::Cancel { attempt, poll } if attempt == ai => Some(poll),
                _ => None,
            };
            let accept_fut = CancelAfter {
                fut: Some(Box::pin(async move {
                    svc.verif_accept(MaybeTlsStream::Sim(Box::pin(SimConn(server_end))), parts, version).await
                })),
                polls: 0,
                cancel_at,
                counter: counter.clone(),
            };
            ctx.ev(format!("attempt {ai} key{} allow={} end={:?}", a.key, a.allow, a.end));
            // C08: revoker racing the last attempt
            let revoker = if ai + 1 == n {
                case.revoke.clone().map(|r| {
                    let access = access.clone();
                    let service = service.clone();
                    let ctx = ctx.clone();
                    let info = info.clone();
                    let ep = sk.public();
                    // index the access-control log will give to THIS attempt's connection
                    let my_idx = access.ids.lock().unwrap().len() as u64;
                    tokio::task::spawn_local(async move {
                        match r {
                            Revoke::AfterAdmission { yields: y, by_endpoint } => {
                                // wait until this attempt's on_connect returned Allow
                                loop {
                                    let admitted = access.log.lock().unwrap().iter().rev().find_map(|e| match e {
                                        AcEvent::ConnectEnd(i, true) if *i == my_idx && access.ids.lock().unwrap()[*i as usize].1 == ep => Some(*i),
                                        _ => None,
                                    });
                                    if let Some(i) = admitted {
                                        {
                                            yields(y).await;
                                            let cid = access.ids.lock().unwrap()[i as usize].0;
                                            let found = service.clients().disconnect(ep, if by_endpoint { None } else { Some(cid) });
                                            ctx.ev(format!("revoke conn#{i} by_endpoint={by_endpoint} -> found={found}"));
                                            info.lock().unwrap().revoked_conn = Some(i);
                                            ctx.count("fault.revoke_after_admission");
                                            return;
                                        }
                                    }
                                    access.admitted_notify.notified().await;
                                }
                            }
                            Revoke::AfterRegistration { .. } => {}
                        }
                    })
                })
            } else {
                None
            };
            let client_fut = async {
                let r = handshake::verif::clientside(&mut ws, &sk).await;
                r.is_ok()
            };
            let both = async { tokio::join!(accept_fut, client_fut) };
            let out = tokio::time::timeout(Duration::from_secs(20), both).await;
            let (acc, client_ok) = match out {
                Ok((acc, c)) => (acc, c),
                Err(_) => {
                    // stalled handshake: the establish timeout of the HTTP layer drops the connection
                    ctx.ev(format!("attempt {ai} stalled; dropped by establish timeout"));
                    (None, false)
                }
            };
            let ok = matches!(acc, Some(Ok(())));
            ctx.ev(format!("attempt {ai} accept -> {} client_ok={client_ok}", match &acc { Some(Ok(())) => "ok", Some(Err(_)) => "err", None => "cancelled" }));
            {
                let mut g = info.lock().unwrap();
                let st = server_state.lock().unwrap();
                g.server_ops.push(st.ops);
                g.accept_polls.push(*counter.lock().unwrap());
                if st.fault_fired.is_some() {
                    g.fault_fired = true;
                }
                if matches!(fault, Fault::Cancel { attempt, .. } if attempt == ai) && acc.is_none() {
                    g.fault_fired = true;
                }
            }
            if let Some(r) = revoker {
                let _ = tokio::time::timeout(Duration::from_secs(1), r).await;
            }
            let mut ws = Some(ws);
            if let (Some(Revoke::AfterRegistration { .. }), true, true) = (&case.revoke, ai + 1 == n && ok && client_ok, case.flood) {
                // a connected client of another endpoint floods the connection about to be revoked
                if let Some(f) = (0..ai).find(|j| case.attempts[*j].key != a.key && clients[*j].is_some()) {
                    let mut flooder = clients[f].take().expect("checked");
                    let stop = flood_stop.clone();
                    let dst = sk.public();
                    tokio::task::spawn_local(async move {
                        let mut k = 0u32;
                        while !stop.load(std::sync::atomic::Ordering::SeqCst) && k < 40_000 {
                            for _ in 0..16 {
                                k += 1;
                                let frame = crate::props::relayreg::enc_datagram(dst.as_bytes(), 0, None, &[0x5a; 600]);
                                if flooder.send(frame).await.is_err() {
                                    return;
                                }
                            }
                            tokio::time::sleep(Duration::from_millis(1)).await;
                        }
                    });
                    // the revoked client reads everything it is sent, slower than the flood arrives (one frame per
                        // virtual ms through a 4 kB socket buffer), so the relay always has another datagram queued
                        // for it; the flag records the end of its stream
                    server_tx.lock().unwrap().limit = Some(4096);
                    let mut victim = ws.take().expect("present");
                    let ended = victim_ended.clone();
                    tokio::task::spawn_local(async move {
                        loop {
                            match victim.next().await {
                                None | Some(Err(_)) => break,
                                Some(Ok(_)) => tokio::time::sleep(Duration::from_millis(1)).await,
                            }
                        }
                        ended.store(true, std::sync::atomic::Ordering::SeqCst);
                    });
                    flooding = true;
                    ctx.count("fault.flood_towards_revoked_connection");
                    // let the flood reach a steady state before the revocation
                    tokio::time::sleep(Duration::from_millis(20)).await;
                }
            }
            if let (Some(Revoke::AfterRegistration { delay_ms, by_endpoint }), true) = (&case.revoke, ai + 1 == n && ok) {
                tokio::time::sleep(Duration::from_millis(*delay_ms)).await;
                let ids = access.ids.lock().unwrap().clone();
                if let Some(i) = ids.iter().rposition(|x| x.1 == sk.public()) {
                    let found = service.clients().disconnect(sk.public(), if *by_endpoint { None } else { Some(ids[i].0) });
                    ctx.ev(format!("revoke conn#{i} by_endpoint={by_endpoint} -> found={found}"));
                    info.lock().unwrap().revoked_conn = Some(i as u64);
                    ctx.count("fault.revoke_after_registration");
                }
            }
            accepted.push(ok);
            clients.push(if ok && client_ok { ws } else { None });
        }
        // C08 oracle: within 2 virtual s the revoked connection is no longer served
        if check_revoke {
            let revoked = info.lock().unwrap().revoked_conn;
            if let Some(rc) = revoked {
                tokio::time::sleep(Duration::from_secs(2)).await;
                yields(8).await;
                let disconnected = access.log.lock().unwrap().iter().any(|e| *e == AcEvent::Disconnect(rc));
                let last = n - 1;
                let mut still_open = false;
                if flooding {
                    still_open = !victim_ended.load(std::sync::atomic::Ordering::SeqCst);
                    flood_stop.store(true, std::sync::atomic::Ordering::SeqCst);
                } else if let Some(ws) = clients[last].as_mut() {
                    // the client's stream must have ended
                    let r = tokio::time::timeout(Duration::from_millis(10), ws.next()).await;
                    still_open = r.is_err();
                }
                if accepted[last] && (!disconnected || still_open) {
                    let how = match &case.revoke {
                        Some(Revoke::AfterAdmission { by_endpoint, .. }) => format!("between-admission-and-registration:{}", if *by_endpoint { "by-endpoint-id" } else { "by-connection-id" }),
                        Some(Revoke::AfterRegistration { by_endpoint, .. }) => format!("after-registration{}:{}", if flooding { "-under-steady-inbound-traffic" } else { "" }, if *by_endpoint { "by-endpoint-id" } else { "by-connection-id" }),
                        None => "?".into(),
                    };
                    info.lock().unwrap().violation = Some((
                        format!("revoked-connection-stays-connected:{how}"),
                        format!("conn#{rc} was revoked ({:?}) but 2 s later: on_disconnect seen = {disconnected}, client stream still open = {still_open}", case.revoke),
                    ));
                    return;
                }
                ctx.count("probe.revoked_connection_ended");
                // a revocation by endpoint id covers every connection of that endpoint (also ones
                // displaced by a newer connection); connections of other endpoints stay served
                let by_endpoint = matches!(&case.revoke, Some(Revoke::AfterAdmission { by_endpoint: true, .. }) | Some(Revoke::AfterRegistration { by_endpoint: true, .. }));
                let revoked_key = case.attempts[last].key;
                for ai in 0..last {
                    let same = case.attempts[ai].key == revoked_key;
                    let Some(ws) = clients[ai].as_mut() else { continue };
                    // drain whatever the relay sent (health frames etc.); Ok(None) = stream ended
                    let mut ended = false;
                    loop {
                        match tokio::time::timeout(Duration::from_millis(10), ws.next()).await {
                            Ok(None) | Ok(Some(Err(_))) => {
                                ended = true;
                                break;
                            }
                            Ok(Some(Ok(_))) => continue,
                            Err(_) => break,
                        }
                    }
                    if same && by_endpoint && !ended {
                        info.lock().unwrap().violation = Some((
                            "revoked-endpoint-keeps-another-connection:by-endpoint-id".to_string(),
                            format!("endpoint key{revoked_key} was revoked by endpoint id ({:?}); 2 s later its earlier connection (attempt {ai}) is still open", case.revoke),
                        ));
                        return;
                    }
                    if !same && ended {
                        info.lock().unwrap().violation = Some((
                            "revocation-ended-connection-of-another-endpoint".to_string(),
                            format!("revoking key{revoked_key} ended the connection of key{} (attempt {ai})", case.attempts[ai].key),
                        ));
                        return;
                    }
                    if same && by_endpoint {
                        ctx.count("probe.revoked_endpoint_other_connection_ended");
                        clients[ai] = None;
                    } else if !same {
                        ctx.count("probe.other_endpoint_unaffected");
                    }
                }
            }
        }
        // end every remaining connection by its scripted cause
        for (ai, a) in case.attempts.iter().enumerate() {
            let Some(mut ws) = clients[ai].take() else { continue };
            match a.end {
                End::ClientClose => {
                    let _ = tokio::time::timeout(Duration::from_secs(3), ws.close()).await;
                    drop(ws);
                }
                End::ClientReset => {
                    crate::fw::bytepipe::reset(&ws.io.get_ref().tx_chan());
                    drop(ws);
                }
                End::AdminDisconnectConn => {
                    let ids = access.ids.lock().unwrap().clone();
                    if let Some(i) = ids.iter().rposition(|x| x.1 == secret(a.key).public()) {
                        service.clients().disconnect(ids[i].1, Some(ids[i].0));
                    }
                    clients[ai] = Some(ws);
                }
                End::AdminDisconnectEndpoint => {
                    service.clients().disconnect(secret(a.key).public(), None);
                    clients[ai] = Some(ws);
                }
                End::None => {
                    clients[ai] = Some(ws);
                }
            }
            yields(3).await;
        }
        tokio::time::sleep(Duration::from_secs(3)).await;
        if case.final_shutdown {
            let _ = tokio::time::timeout(Duration::from_secs(30), service.shutdown()).await;
        }
        drop(service);
        drop(clients);
        tokio::time::sleep(Duration::from_secs(30)).await;
        yields(8).await;
        // ---- C07 oracle over the access-control log ----
        let log = access.log.lock().unwrap().clone();
        let mut state: BTreeMap<u64, (bool, Option<bool>, u32)> = BTreeMap::new(); // began, decision, disconnects
        for e in &log {
            match e {
                AcEvent::ConnectBegin(i) => {
                    state.entry(*i).or_insert((true, None, 0));
                }
                AcEvent::ConnectEnd(i, allow) => {
                    state.entry(*i).or_insert((true, None, 0)).1 = Some(*allow);
                }
                AcEvent::Disconnect(i) => {
                    let s = state.entry(*i).or_insert((false, None, 0));
                    if s.1 != Some(true) {
                        info.lock().unwrap().violation = Some((
                            if s.1 == Some(false) { "disconnect-for-denied-connection".into() } else { "disconnect-before-admission".into() },
                            format!("on_disconnect(conn#{i}) while its on_connect state was {:?}; log {log:?}", s.1),
                        ));
                        return;
                    }
                    s.2 += 1;
                    if s.2 > 1 {
                        info.lock().unwrap().violation = Some(("disconnect-reported-twice".into(), format!("conn#{i}; log {log:?}")));
                        return;
                    }
                }
            }
        }
        for (i, (_, decision, d)) in &state {
            if *decision == Some(true) && *d != 1 {
                info.lock().unwrap().violation = Some((
                    "admitted-connection-without-disconnect".into(),
                    format!("conn#{i} was admitted but on_disconnect was called {d} times by the end of the run (fault {fault:?}); log {log:?}"),
                ));
                return;
            }
        }
    });
    drop(hook);
    let g = info.lock().unwrap();
    RunInfo {
        server_ops: g.server_ops.clone(),
        accept_polls: g.accept_polls.clone(),
        violation: g.violation.clone(),
        fault_fired: g.fault_fired,
        revoked_conn: g.revoked_conn,
    }
}

fn gen_attempt(rng: &mut Rng) -> Attempt {
    Attempt {
        key: rng.range(0, 1) as u8,
        allow: rng.chance(4, 5),
        on_connect_delay_ms: if rng.coin() { 0 } else { rng.range(1, 50) },
        v1: rng.chance(1, 4),
        end: match rng.below(6) {
            0 => End::ClientClose,
            1 => End::ClientReset,
            2 => End::AdminDisconnectConn,
            3 => End::AdminDisconnectEndpoint,
            _ => End::None,
        },
        send_header: rng.coin(),
        keying: rng.coin(),
        max_chunk: *rng.pick(&[0u32, 0, 1, 7, 64]),
        wouldblock_pm: *rng.pick(&[0u32, 0, 100, 400]),
    }
}

pub struct C07;
pub struct C08;

impl Typed for C07 {
    type Case = Case;
    fn gen_case(&self, rng: &mut Rng, _tier: Tier) -> Case {
        let n = rng.range(1, 3);
        Case {
            attempts: (0..n).map(|_| gen_attempt(rng)).collect(),
            revoke: None,
            pre_register_yields: rng.range(0, 3) as u32,
            final_shutdown: rng.coin(),
            flood: false,
            seed: rng.next_u64(),
        }
    }

    fn exec_case(&self, case: &Case, ctx: &Ctx) {
        // 1. fault-free run: count server-side I/O operations and accept polls per attempt
        let base = run_once(case, Fault::None, ctx, false);
        if let Some((c, d)) = base.violation {
            ctx.violate(c, format!("fault-free: {d}"));
            return;
        }
        ctx.count("probe.fault_free_runs");
        // 2. enumerate every I/O failure point x kind and every cancellation point
        let mut enumerated = 0u64;
        let mut fired = 0u64;
        for ai in 0..case.attempts.len() {
            for op in 0..base.server_ops[ai] {
                for kind in [FaultKind::Error, FaultKind::Eof, FaultKind::Stall] {
                    let r = run_once(case, Fault::Io { attempt: ai, op, kind }, ctx, false);
                    enumerated += 1;
                    if r.fault_fired {
                        fired += 1;
                        ctx.count(match kind {
                            FaultKind::Error => "fault.io_error",
                            FaultKind::Eof => "fault.io_eof",
                            FaultKind::Stall => "fault.io_stall",
                        });
                    }
                    if let Some((c, d)) = r.violation {
                        ctx.violate(c, format!("with fault attempt={ai} op={op} kind={kind:?}: {d}"));
                        return;
                    }
                }
            }
            for poll in 0..base.accept_polls[ai] {
                let r = run_once(case, Fault::Cancel { attempt: ai, poll }, ctx, false);
                enumerated += 1;
                if r.fault_fired {
                    fired += 1;
                    ctx.count("fault.accept_cancelled");
                }
                if let Some((c, d)) = r.violation {
                    ctx.violate(c, format!("with cancellation attempt={ai} at poll {poll}: {d}"));
                    return;
                }
            }
        }
        ctx.add("probe.fault_points_enumerated", enumerated);
        ctx.add("probe.fault_points_fired", fired);
        if fired >= 3 {
            ctx.nontrivial();
        }
    }

    fn shrink_case(&self, case: &Case) -> Vec<Case> {
        shrink(case)
    }
}

fn shrink(case: &Case) -> Vec<Case> {
    let mut out = vec![];
    if case.attempts.len() > 1 {
        for i in 0..case.attempts.len() - 1 {
            let mut c = case.clone();
            c.attempts.remove(i);
            out.push(c);
        }
    }
    for i in 0..case.attempts.len() {
        let a = &case.attempts[i];
        let mut simple = a.clone();
        simple.on_connect_delay_ms = 0;
        simple.max_chunk = 0;
        simple.wouldblock_pm = 0;
        simple.send_header = false;
        simple.keying = false;
        simple.v1 = false;
        if format!("{simple:?}") != format!("{a:?}") {
            let mut c = case.clone();
            c.attempts[i] = simple;
            out.push(c);
        }
        if a.end != End::None {
            let mut c = case.clone();
            c.attempts[i].end = End::None;
            out.push(c);
        }
    }
    if case.pre_register_yields > 0 {
        let mut c = case.clone();
        c.pre_register_yields = 0;
        out.push(c);
    }
    out
}

impl Typed for C08 {
    type Case = Case;
    fn gen_case(&self, rng: &mut Rng, _tier: Tier) -> Case {
        let n = rng.range(1, 3);
        let mut attempts: Vec<Attempt> = (0..n).map(|_| gen_attempt(rng)).collect();
        let last = attempts.len() - 1;
        attempts[last].allow = true;
        attempts[last].end = End::None;
        let by_endpoint = rng.coin();
        let revoke = if rng.chance(2, 3) {
            Revoke::AfterAdmission { yields: rng.range(0, 6) as u32, by_endpoint }
        } else {
            Revoke::AfterRegistration { delay_ms: rng.range(0, 100), by_endpoint }
        };
        Case {
            attempts,
            revoke: Some(revoke),
            pre_register_yields: rng.range(0, 4) as u32,
            final_shutdown: rng.coin(),
            flood: rng.coin(),
            seed: rng.next_u64(),
        }
    }

    fn exec_case(&self, case: &Case, ctx: &Ctx) {
        let r = run_once(case, Fault::None, ctx, true);
        if let Some((c, d)) = r.violation {
            ctx.violate(c, d);
            return;
        }
        if r.revoked_conn.is_some() {
            ctx.nontrivial();
        }
    }

    fn shrink_case(&self, case: &Case) -> Vec<Case> {
        shrink(case)
    }
}

fn real_vs_stub() -> Value {
    json!({"real": ["RelayService / Inner::accept", "RateLimited::from_watcher", "tokio-websockets server and client framing", "handshake::{serverside, clientside}", "SuccessfulAuthentication::authorize_with", "OnDisconnectGuard", "Clients::{register, unregister, disconnect, shutdown}", "per-connection Actor"], "stub": ["TCP/TLS connection (BytePipe with fault plan, fragmentation, would-block)", "hyper HTTP upgrade (accept is entered right after the upgrade)", "AccessControl policy (recording, seeded allow/deny and delay)", "clock", "entropy"]})
}

impl Property for C07 {
    fn id(&self) -> &'static str {
        "C07"
    }
    fn level(&self) -> &'static str {
        "fault_enumeration"
    }
    fn rule(&self) -> String {
        "case = script of 1..3 connection attempts (key, allow/deny, delay inside on_connect, V1/V2, key-material header or challenge, fragmentation, would-block rate, end cause: client close / reset / admin disconnect by connection or endpoint id / service shutdown / drop). Each script is run fault-free once to count the server-side I/O operations N and accept-future polls M of every attempt, then re-run once for EVERY (attempt, operation index < N, kind in {error, EOF, stall}) and EVERY (attempt, cancel at poll < M): exhaustive per script, scripts sampled by seed. non-trivial = at least 3 injected faults actually fired; distinct = distinct history hash".into()
    }
    fn assumptions(&self) -> Vec<String> {
        vec![
            "a stalled handshake is ended after 20 virtual s by dropping the accept future (what the HTTP layer's establish timeout does)".into(),
            "evaluations counts scripts; probe.fault_points_enumerated counts the individual single-fault executions".into(),
        ]
    }
    fn real_vs_stub(&self) -> Value {
        real_vs_stub()
    }
    fn runs(&self, tier: Tier) -> u64 {
        match tier {
            Tier::Quick => 150,
            Tier::Thorough => 20_000,
        }
    }
    fn wall_cap_s(&self) -> u64 {
        120
    }
    fn generate(&self, seed: u64, tier: Tier) -> Value {
        fw::typed_generate(self, seed, tier)
    }
    fn execute(&self, case: &Value, ctx: &Ctx) {
        fw::typed_execute(self, case, ctx)
    }
    fn shrink(&self, case: &Value) -> Vec<Value> {
        fw::typed_shrink(self, case)
    }
}

impl Property for C08 {
    fn id(&self) -> &'static str {
        "C08"
    }
    fn rule(&self) -> String {
        "case = 1..2 connection attempts through the real accept path; the last one is admitted and revoked (Clients::disconnect by connection id or by endpoint id) either k yields after on_connect returned Allow (window widened by would-block I/O, fragmentation and a seeded number of yields at the pre-register schedule point) or some ms after accept() returned; non-trivial = a revocation was issued; distinct = distinct history hash".into()
    }
    fn assumptions(&self) -> Vec<String> {
        vec!["'stops being served' = within 2 virtual s on_disconnect was reported for it and the client's stream has ended".into()]
    }
    fn real_vs_stub(&self) -> Value {
        real_vs_stub()
    }
    fn runs(&self, tier: Tier) -> u64 {
        match tier {
            Tier::Quick => 6_000,
            Tier::Thorough => 600_000,
        }
    }
    fn generate(&self, seed: u64, tier: Tier) -> Value {
        fw::typed_generate(self, seed, tier)
    }
    fn execute(&self, case: &Value, ctx: &Ctx) {
        fw::typed_execute(self, case, ctx)
    }
    fn shrink(&self, case: &Value) -> Vec<Value> {
        fw::typed_shrink(self, case)
    }
}
