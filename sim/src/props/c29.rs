//! C29 — Address lookup results stream follows its documented protocol.
//!
//! Subject: public `AddressLookupServices::resolve` (real `AddressLookupStream` + MergeBounded) with
//! 0..4 scripted services on the virtual clock. Faults: per-service errors, declining services,
//! never-ending services, consumer dropping the stream mid-way, slow consumer.

use std::{
    sync::{Arc, Mutex},
    time::Duration,
};

use iroh::address_lookup::{AddressLookup, AddressLookupFailed, AddressLookupServices, Error, Item};
use iroh_base::{EndpointId, SecretKey};
use iroh_dns::endpoint_info::EndpointInfo;
use n0_future::{StreamExt, boxed::BoxStream};
use serde::{Deserialize, Serialize};
use serde_json::{Value, json};

use crate::fw::{self, Ctx, Property, Rng, Tier, Typed, rt::run_e1};

pub struct C29;

#[derive(Clone, Debug, Serialize, Deserialize, PartialEq)]
pub enum Emit {
    Item,
    Err,
}

#[derive(Clone, Debug, Serialize, Deserialize)]
pub struct Service {
    /// `resolve` returns None
    pub decline: bool,
    /// (delay before this emission in ms, what)
    pub emits: Vec<(u64, Emit)>,
    /// never ends after its emissions
    pub hang: bool,
}

#[derive(Clone, Debug, Serialize, Deserialize)]
pub struct Case {
    pub services: Vec<Service>,
    /// consumer sleeps this long before each poll (0 = eager)
    pub consumer_gap_ms: Vec<u64>,
    /// drop the stream after this many yielded elements
    pub drop_after: Option<usize>,
    pub seed: u64,
}

#[derive(Debug, Default)]
struct Log {
    produced: Vec<(usize, u64, bool, u64)>, // (service, tag, is_item, t_ms)
    dropped: Vec<usize>,
    ended: Vec<usize>,
}

#[derive(Debug)]
struct SimLookup {
    idx: usize,
    plan: Service,
    log: Arc<Mutex<Log>>,
    t0: tokio::time::Instant,
}

struct DropGuard(usize, Arc<Mutex<Log>>);
impl Drop for DropGuard {
    fn drop(&mut self) {
        self.1.lock().unwrap().dropped.push(self.0);
    }
}

fn tag_of(service: usize, k: usize) -> u64 {
    (service as u64) * 1000 + k as u64 + 1
}

impl AddressLookup for SimLookup {
    fn resolve(&self, endpoint_id: EndpointId) -> Option<BoxStream<Result<Item, Error>>> {
        if self.plan.decline {
            return None;
        }
        let plan = self.plan.clone();
        let idx = self.idx;
        let log = self.log.clone();
        let t0 = self.t0;
        let guard = DropGuard(idx, log.clone());
        let s = n0_future::stream::unfold((0usize, guard), move |(k, guard)| {
            let plan = plan.clone();
            let log = log.clone();
            async move {
                if k >= plan.emits.len() {
                    if plan.hang {
                        std::future::pending::<()>().await;
                    }
                    log.lock().unwrap().ended.push(idx);
                    return None;
                }
                let (delay, what) = plan.emits[k].clone();
                tokio::time::sleep(Duration::from_millis(delay)).await;
                let tag = tag_of(idx, k);
                let t = t0.elapsed().as_millis() as u64;
                let out = match what {
                    Emit::Item => {
                        log.lock().unwrap().produced.push((idx, tag, true, t));
                        Ok(Item::new(EndpointInfo::new(endpoint_id), "sim", Some(tag)))
                    }
                    Emit::Err => {
                        log.lock().unwrap().produced.push((idx, tag, false, t));
                        Err(Error::from_err("sim", std::io::Error::other(format!("simtag<{tag}>"))))
                    }
                };
                Some((out, (k + 1, guard)))
            }
        });
        Some(s.boxed())
    }
}

fn err_tag(e: &Error) -> Option<u64> {
    let s = format!("{e:#} {e:?}");
    let i = s.find("simtag<")?;
    let rest = &s[i + 7..];
    let j = rest.find('>')?;
    rest[..j].parse().ok()
}

impl Typed for C29 {
    type Case = Case;

    fn gen_case(&self, rng: &mut Rng, _tier: Tier) -> Case {
        let n = rng.range(0, 4) as usize;
        let services = (0..n)
            .map(|_| {
                let decline = rng.chance(1, 6);
                let m = rng.range(0, 3) as usize;
                let all_err = rng.chance(1, 3);
                let emits = (0..m)
                    .map(|_| {
                        let d = if rng.coin() { 0 } else { rng.range(0, 50) };
                        let w = if all_err || rng.chance(1, 3) { Emit::Err } else { Emit::Item };
                        (d, w)
                    })
                    .collect();
                Service {
                    decline,
                    emits,
                    hang: rng.chance(1, 10),
                }
            })
            .collect();
        let eager = rng.chance(2, 3);
        Case {
            services,
            consumer_gap_ms: (0..16).map(|_| if eager { 0 } else { rng.range(0, 30) }).collect(),
            drop_after: if rng.chance(1, 5) { Some(rng.range(0, 4) as usize) } else { None },
            seed: rng.next_u64(),
        }
    }

    fn exec_case(&self, case: &Case, ctx: &Ctx) {
        let case = case.clone();
        let ctx2 = ctx.clone();
        run_e1(case.seed, false, ctx, async move {
            let ctx = ctx2;
            let t0 = tokio::time::Instant::now();
            let log = Arc::new(Mutex::new(Log::default()));
            let services = AddressLookupServices::default();
            for (i, s) in case.services.iter().enumerate() {
                services.add(SimLookup {
                    idx: i,
                    plan: s.clone(),
                    log: log.clone(),
                    t0,
                });
            }
            let target = SecretKey::from_bytes(&[7u8; 32]).public();
            let mut stream = Box::pin(services.resolve(target));
            let any_hang = case.services.iter().any(|s| !s.decline && s.hang);
            // yielded: (kind, tag) kind: 0 item, 1 inline error, 2 NoResults(n), 3 NoServiceConfigured
            let mut yielded: Vec<(u8, u64, Vec<u64>)> = vec![];
            let mut ended = false;
            let mut capped = false;
            let mut i = 0;
            loop {
                if let Some(k) = case.drop_after {
                    if yielded.len() >= k {
                        break;
                    }
                }
                let gap = case.consumer_gap_ms.get(i).copied().unwrap_or(0);
                i += 1;
                if gap > 0 {
                    tokio::time::sleep(Duration::from_millis(gap)).await;
                }
                let r = tokio::time::timeout(Duration::from_secs(30), stream.next()).await;
                let t = t0.elapsed().as_millis() as u64;
                match r {
                    Err(_) => {
                        capped = true;
                        ctx.ev(format!("cap t={t}"));
                        break;
                    }
                    Ok(None) => {
                        ended = true;
                        ctx.ev(format!("end t={t}"));
                        break;
                    }
                    Ok(Some(Ok(Ok(item)))) => {
                        let tag = item.last_updated().unwrap_or(0);
                        ctx.ev(format!("item {tag} t={t}"));
                        yielded.push((0, tag, vec![]));
                    }
                    Ok(Some(Ok(Err(e)))) => {
                        let tag = err_tag(&e).unwrap_or(0);
                        ctx.ev(format!("error {tag} t={t}"));
                        yielded.push((1, tag, vec![]));
                    }
                    Ok(Some(Err(AddressLookupFailed::NoResults { errors, .. }))) => {
                        let mut tags: Vec<u64> = errors.iter().map(|e| err_tag(e).unwrap_or(0)).collect();
                        tags.sort();
                        ctx.ev(format!("NoResults {tags:?} t={t}"));
                        yielded.push((2, 0, tags));
                    }
                    Ok(Some(Err(AddressLookupFailed::NoServiceConfigured { .. }))) => {
                        ctx.ev(format!("NoServiceConfigured t={t}"));
                        yielded.push((3, 0, vec![]));
                    }
                    Ok(Some(Err(_))) => {
                        ctx.violate("unknown-terminal", "unknown AddressLookupFailed variant".to_string());
                        return;
                    }
                }
                if yielded.len() > 64 {
                    ctx.violate("stream-unbounded", "more than 64 elements".to_string());
                    return;
                }
            }
            let lg = |l: &Arc<Mutex<Log>>| {
                let g = l.lock().unwrap();
                (g.produced.clone(), g.dropped.clone(), g.ended.clone())
            };
            if ended {
                // nothing after the end
                for _ in 0..3 {
                    let r = tokio::time::timeout(Duration::from_millis(100), stream.next()).await;
                    if !matches!(r, Ok(None)) {
                        ctx.violate("yield-after-end", format!("polled after end: got {:?}", r.map(|o| o.is_some())));
                        return;
                    }
                }
            }
            let (produced, _, _) = lg(&log);
            if case.drop_after.is_some() && !ended {
                // cancellation: dropping the stream drops every service stream; no production later
                let n_before = produced.len();
                drop(stream);
                ctx.count("fault.consumer_dropped_stream");
                tokio::time::sleep(Duration::from_secs(5)).await;
                let (produced2, dropped, _) = lg(&log);
                let active: Vec<usize> = case
                    .services
                    .iter()
                    .enumerate()
                    .filter(|(_, s)| !s.decline)
                    .map(|(i, _)| i)
                    .collect();
                let mut d = dropped.clone();
                d.sort();
                if d != active {
                    ctx.violate(
                        "service-stream-not-cancelled-on-drop",
                        format!("service streams dropped {d:?}, active services {active:?}"),
                    );
                    return;
                }
                if produced2.len() != n_before {
                    ctx.violate("service-produced-after-drop", format!("{} -> {}", n_before, produced2.len()));
                    return;
                }
            }
            // ---- protocol oracle over what was yielded ----
            let terminals: Vec<usize> = yielded
                .iter()
                .enumerate()
                .filter(|(_, y)| y.0 >= 2)
                .map(|(i, _)| i)
                .collect();
            if terminals.len() > 1 || terminals.first().is_some_and(|i| *i != yielded.len() - 1) {
                ctx.violate("terminal-not-single-or-not-last", format!("{yielded:?}"));
                return;
            }
            // every yielded item/error was produced, at most once, per-service order kept
            let mut seen = std::collections::BTreeSet::new();
            let mut last_k: std::collections::BTreeMap<u64, u64> = Default::default();
            for y in yielded.iter().filter(|y| y.0 < 2) {
                let p = produced.iter().find(|p| p.1 == y.1 && p.2 == (y.0 == 0));
                if p.is_none() {
                    ctx.violate("yielded-not-produced", format!("{y:?} produced {produced:?}"));
                    return;
                }
                if !seen.insert(y.1) {
                    ctx.violate("yielded-twice", format!("{y:?}"));
                    return;
                }
                let svc = y.1 / 1000;
                if let Some(prev) = last_k.insert(svc, y.1) {
                    if prev > y.1 {
                        ctx.violate("per-service-order-broken", format!("{yielded:?}"));
                        return;
                    }
                }
            }
            if ended {
                let produced_tags: std::collections::BTreeSet<u64> = produced.iter().map(|p| p.1).collect();
                if any_hang {
                    ctx.violate("ended-while-a-service-still-running", format!("{yielded:?}"));
                    return;
                }
                if produced_tags != seen {
                    ctx.violate(
                        "produced-not-yielded",
                        format!("produced {produced_tags:?} yielded {seen:?}"),
                    );
                    return;
                }
                let n_items = yielded.iter().filter(|y| y.0 == 0).count();
                let mut err_tags: Vec<u64> = yielded.iter().filter(|y| y.0 == 1).map(|y| y.1).collect();
                err_tags.sort();
                let term = yielded.last().filter(|y| y.0 >= 2);
                if case.services.is_empty() {
                    if term.map(|t| t.0) != Some(3) || yielded.len() != 1 {
                        ctx.violate("no-services-terminal-wrong", format!("{yielded:?}"));
                        return;
                    }
                    ctx.count("probe.no_service_configured");
                } else if n_items == 0 {
                    match term {
                        Some((2, _, tags)) if *tags == err_tags => {
                            ctx.count("probe.no_results");
                        }
                        _ => {
                            ctx.violate(
                                "no-results-terminal-wrong",
                                format!("no item produced; expected NoResults carrying {err_tags:?}; got {yielded:?}"),
                            );
                            return;
                        }
                    }
                } else if term.is_some() {
                    ctx.violate("failure-terminal-despite-items", format!("{yielded:?}"));
                    return;
                }
            } else if capped {
                ctx.count("probe.hanging_service_capped");
                if !any_hang {
                    ctx.violate("stream-never-ends", format!("all services finished but stream pending; {yielded:?}"));
                    return;
                }
                let produced_tags: std::collections::BTreeSet<u64> = produced.iter().map(|p| p.1).collect();
                if produced_tags != seen {
                    ctx.violate("produced-not-yielded", format!("produced {produced_tags:?} yielded {seen:?}"));
                    return;
                }
                if !terminals.is_empty() {
                    ctx.violate("terminal-before-end", format!("{yielded:?}"));
                    return;
                }
            }
            let active = case.services.iter().filter(|s| !s.decline && !s.emits.is_empty()).count();
            if active >= 2 {
                ctx.nontrivial();
            }
        });
    }

    fn shrink_case(&self, case: &Case) -> Vec<Case> {
        let mut out = vec![];
        for s in fw::shrink_vec(&case.services) {
            let mut c = case.clone();
            c.services = s;
            out.push(c);
        }
        for (i, s) in case.services.iter().enumerate() {
            for e in fw::shrink_vec(&s.emits) {
                let mut c = case.clone();
                c.services[i].emits = e;
                out.push(c);
            }
            if s.hang {
                let mut c = case.clone();
                c.services[i].hang = false;
                out.push(c);
            }
        }
        if case.consumer_gap_ms.iter().any(|g| *g != 0) {
            let mut c = case.clone();
            c.consumer_gap_ms = vec![0; 16];
            out.push(c);
        }
        if case.drop_after.is_some() {
            let mut c = case.clone();
            c.drop_after = None;
            out.push(c);
        }
        out
    }
}

impl Property for C29 {
    fn id(&self) -> &'static str {
        "C29"
    }
    fn rule(&self) -> String {
        "case = (0..4 services each declining / emitting 0..3 uniquely tagged items or errors after seeded delays / optionally never ending, eager or slow consumer, optional drop of the stream after k elements); non-trivial = at least two services actually emit; distinct = distinct history hash (sequence of yielded tags, terminal, times)".into()
    }
    fn assumptions(&self) -> Vec<String> {
        vec!["items are identified by a unique last_updated tag, errors by a unique message tag".into()]
    }
    fn real_vs_stub(&self) -> Value {
        json!({"real": ["AddressLookupServices::{add, resolve}", "AddressLookupStream", "n0_future::MergeBounded"], "stub": ["lookup services (scripted AddressLookup impls)", "clock"]})
    }
    fn runs(&self, tier: Tier) -> u64 {
        match tier {
            Tier::Quick => 40_000,
            Tier::Thorough => 3_000_000,
        }
    }
    fn generate(&self, seed: u64, tier: Tier) -> Value {
        fw::typed_generate(self, seed, tier)
    }
    fn execute(&self, case: &Value, ctx: &Ctx) {
        fw::typed_execute(self, case, ctx)
    }
    fn shrink(&self, case: &Value) -> Vec<Value> {
        fw::typed_shrink(self, case)
    }
}
