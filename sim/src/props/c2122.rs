//! C21 (per-remote state never loses requests across idle shutdown and restart) and C22 (address
//! resolution answered exactly once and correctly) over the real `RemoteMap` with real
//! `RemoteStateActor`s (through `iroh::verif::RemoteMapHarness`), scripted lookup services, and the
//! socket actor's cleanup loop emulated by the harness. Virtual time advances are biased to land
//! within a few ms of the 60 s idle expiry.

use std::{
    collections::BTreeMap,
    net::SocketAddr,
    sync::{Arc, Mutex},
    time::Duration,
};

use iroh::{
    address_lookup::{AddressLookup, AddressLookupFailed, AddressLookupServices, Error, Item},
    endpoint_info::{EndpointData, EndpointInfo},
    verif::RemoteMapHarness,
};
use iroh_base::{EndpointAddr, EndpointId, SecretKey, TransportAddr};
use n0_future::{StreamExt, boxed::BoxStream};
use serde::{Deserialize, Serialize};
use serde_json::{Value, json};
use tokio::time::Instant;

use crate::fw::{
    self, Ctx, Property, Rng, Tier, Typed,
    rt::{E1Hook, run_e1, yields},
};

#[derive(Clone, Debug, Serialize, Deserialize, PartialEq)]
pub enum Emit {
    /// item for the right endpoint with n >= 1 addresses
    Addrs(u8),
    /// item for the right endpoint without addresses
    Empty,
    /// item claiming another endpoint id
    WrongEndpoint,
    Error,
}

#[derive(Clone, Debug, Serialize, Deserialize)]
pub struct LookupPlan {
    pub decline: bool,
    pub emits: Vec<(u64, Emit)>,
    pub end_delay_ms: u64,
}

#[derive(Clone, Debug, Serialize, Deserialize, PartialEq)]
pub enum Op {
    Resolve { remote: u8, n_addrs: u8 },
    Advance(u64),
    Cleanup,
    NetworkChange,
    RemoteInfo { remote: u8 },
    Yield(u8),
    /// wait (at most 70 virtual s) until some state actor has decided to stop for idleness and
    /// is about to close its inbox; the following ops then run inside that window
    AwaitCloseWindow,
}

#[derive(Clone, Debug, Serialize, Deserialize)]
pub struct Case {
    /// per service: plan for the k-th resolve call (last repeats)
    pub services: Vec<Vec<LookupPlan>>,
    pub ops: Vec<Op>,
    /// yields the actor takes between deciding to stop for idleness and closing its inbox
    /// (the window in which, on a multi-threaded runtime, senders still enqueue messages)
    #[serde(default)]
    pub close_yields: u32,
    pub seed: u64,
}

fn remote(i: u8) -> EndpointId {
    SecretKey::from_bytes(&[0x70 + i; 32]).public()
}

/// A point in the run: global event sequence number (total order) and virtual time.
type At = (u64, Instant);

static SEQ: std::sync::atomic::AtomicU64 = std::sync::atomic::AtomicU64::new(0);
fn at() -> At {
    (SEQ.fetch_add(1, std::sync::atomic::Ordering::SeqCst), Instant::now())
}

#[derive(Debug, Default)]
struct LookupLog {
    /// (remote, when, yields a path)
    items: Vec<(EndpointId, At, bool)>,
    /// (remote, when) a lookup stream of one service ended (or the service declined)
    ended: Vec<(EndpointId, At)>,
    started: Vec<(EndpointId, At)>,
}

#[derive(Debug)]
struct SimLookup {
    idx: usize,
    plans: Vec<LookupPlan>,
    calls: Mutex<usize>,
    log: Arc<Mutex<LookupLog>>,
    port: Arc<Mutex<u16>>,
}

impl AddressLookup for SimLookup {
    fn resolve(&self, endpoint_id: EndpointId) -> Option<BoxStream<Result<Item, Error>>> {
        let k = {
            let mut c = self.calls.lock().unwrap();
            let k = *c;
            *c += 1;
            k
        };
        let plan = self.plans[k.min(self.plans.len() - 1)].clone();
        if plan.decline {
            crate::fw::fault_fired("lookup_service_declines");
            // a declined lookup starts and finishes at once
            let mut g = self.log.lock().unwrap();
            g.started.push((endpoint_id, at()));
            g.ended.push((endpoint_id, at()));
            return None;
        }
        let log = self.log.clone();
        let port = self.port.clone();
        log.lock().unwrap().started.push((endpoint_id, at()));
        let idx = self.idx;
        let s = n0_future::stream::unfold(0usize, move |k| {
            let plan = plan.clone();
            let log = log.clone();
            let port = port.clone();
            async move {
                if k >= plan.emits.len() {
                    tokio::time::sleep(Duration::from_millis(plan.end_delay_ms)).await;
                    log.lock().unwrap().ended.push((endpoint_id, at()));
                    return None;
                }
                let (d, what) = plan.emits[k].clone();
                tokio::time::sleep(Duration::from_millis(d)).await;
                let mut next_addr = || {
                    let mut p = port.lock().unwrap();
                    *p += 1;
                    TransportAddr::Ip(SocketAddr::from(([192, 0, 2, 50 + idx as u8], *p)))
                };
                let out = match what {
                    Emit::Addrs(n) => {
                        let addrs: Vec<TransportAddr> = (0..n.max(1)).map(|_| next_addr()).collect();
                        log.lock().unwrap().items.push((endpoint_id, at(), true));
                        Ok(Item::new(EndpointInfo::from_parts(endpoint_id, EndpointData::new(addrs)), "sim", None))
                    }
                    Emit::Empty => {
                        crate::fw::fault_fired("lookup_item_without_addresses");
                        log.lock().unwrap().items.push((endpoint_id, at(), false));
                        Ok(Item::new(EndpointInfo::new(endpoint_id), "sim", None))
                    }
                    Emit::WrongEndpoint => {
                        crate::fw::fault_fired("lookup_item_for_wrong_endpoint");
                        log.lock().unwrap().items.push((endpoint_id, at(), false));
                        let other = SecretKey::from_bytes(&[0x7f; 32]).public();
                        Ok(Item::new(EndpointInfo::from_parts(other, EndpointData::new(vec![next_addr()])), "sim", None))
                    }
                    Emit::Error => {
                        crate::fw::fault_fired("lookup_service_error");
                        Err(Error::from_err("sim", std::io::Error::other("sim lookup error")))
                    }
                };
                Some((out, k + 1))
            }
        });
        Some(s.boxed())
    }
}

#[derive(Clone, Copy, PartialEq)]
enum Mode {
    C21,
    C22,
}

#[derive(Debug, Clone)]
struct Req {
    remote: u8,
    port: Option<u16>,
    n_addrs: u8,
    issued: At,
    issue_idx: usize,
}

fn gen_case(rng: &mut Rng) -> Case {
    let ns = rng.range(0, 2) as usize;
    let services = (0..ns)
        .map(|_| {
            (0..3)
                .map(|_| LookupPlan {
                    decline: rng.chance(1, 8),
                    emits: (0..rng.range(0, 2))
                        .map(|_| {
                            (
                                rng.edgy(0, 300, &[0, 1, 100]),
                                match rng.below(6) {
                                    0..=2 => Emit::Addrs(rng.range(1, 2) as u8),
                                    3 => Emit::Empty,
                                    4 => Emit::WrongEndpoint,
                                    _ => Emit::Error,
                                },
                            )
                        })
                        .collect(),
                    end_delay_ms: rng.edgy(0, 500, &[0, 1, 200]),
                })
                .collect()
        })
        .collect();
    let n = rng.range(3, 14);
    let mut ops = vec![];
    for _ in 0..n {
        if rng.chance(1, 8) {
            // a request (or two) landing between an actor's idle decision and the close of its inbox
            ops.push(Op::AwaitCloseWindow);
            for _ in 0..rng.range(1, 2) {
                ops.push(Op::Resolve { remote: rng.range(0, 1) as u8, n_addrs: if rng.coin() { 1 } else { 0 } });
            }
            continue;
        }
        ops.push(match rng.below(12) {
            0..=4 => Op::Resolve { remote: rng.range(0, 1) as u8, n_addrs: if rng.chance(2, 5) { rng.range(1, 2) as u8 } else { 0 } },
            5..=6 => Op::Advance(rng.edgy(0, 70_000, &[59_990, 59_995, 59_999, 60_000, 60_001, 60_005, 60_010, 1, 500, 30_000])),
            7..=8 => Op::Cleanup,
            9 => Op::NetworkChange,
            10 => Op::RemoteInfo { remote: rng.range(0, 1) as u8 },
            _ => Op::Yield(rng.range(1, 4) as u8),
        });
    }
    Case { services, ops, close_yields: *rng.pick(&[0u32, 0, 1, 3, 100, 200]), seed: rng.next_u64() }
}

fn exec(mode: Mode, case: &Case, ctx: &Ctx) {
    let case = case.clone();
    let ctx2 = ctx.clone();
    let events: Arc<Mutex<Vec<(String, String, At)>>> = Default::default();
    let hook = E1Hook::install(ctx, case.seed, &[("remote_actor.before_inbox_close", case.close_yields)]);
    let close_window = Arc::new(tokio::sync::Notify::new());
    {
        let cw = close_window.clone();
        *hook.0.on_yield.lock().unwrap() = Some(Box::new(move |site| {
            if site == "remote_actor.before_inbox_close" {
                cw.notify_waiters();
            }
        }));
    }
    {
        let ev = events.clone();
        let ctx3 = ctx.clone();
        *hook.0.on_event.lock().unwrap() = Some(Box::new(move |site, data| {
            if site.starts_with("remote_actor.") {
                // endpoint ids -> r0/r1 for a stable history
                let mut d = data.to_string();
                for i in 0..2u8 {
                    d = d.replace(&remote(i).to_string(), &format!("r{i}"));
                }
                ctx3.ev(format!("{site} {d}"));
                ev.lock().unwrap().push((site.to_string(), data.to_string(), at()));
            }
        }));
    }
    run_e1(case.seed, false, ctx, async move {
        let ctx = ctx;
        let ctx = ctx2;
        let t0 = Instant::now();
        let log: Arc<Mutex<LookupLog>> = Default::default();
        let port = Arc::new(Mutex::new(20_000u16));
        let services = AddressLookupServices::default();
        for (i, plans) in case.services.iter().enumerate() {
            services.add(SimLookup { idx: i, plans: plans.clone(), calls: Mutex::new(0), log: log.clone(), port: port.clone() });
        }
        let mut h = RemoteMapHarness::new(services);
        let mut reqs: Vec<Req> = vec![];
        // answers: issue idx -> (time, Ok / Err kind / "dropped")
        let answers: Arc<Mutex<BTreeMap<usize, (At, String)>>> = Default::default();
        let mut next_port = 1000u16;
        let mut info_rx = vec![];
        for (i, op) in case.ops.iter().enumerate() {
            match op {
                Op::Resolve { remote: r, n_addrs } => {
                    let id = remote(*r);
                    let mut addrs = vec![];
                    let mut first_port = None;
                    for _ in 0..*n_addrs {
                        next_port += 1;
                        first_port.get_or_insert(next_port);
                        addrs.push(TransportAddr::Ip(SocketAddr::from(([127, 0, 0, 1], next_port))));
                    }
                    let issue_idx = reqs.len();
                    ctx.ev(format!("op{i} resolve r{r} addrs={n_addrs} t={}", t0.elapsed().as_millis()));
                    let issued = at();
                    // bounded liveness: handing a request to the map takes at most waiting for a terminated
                    // actor task to be reaped; 600 virtual seconds without that is a stall of the whole map
                    let rx = match tokio::time::timeout(Duration::from_secs(600), h.resolve_remote(EndpointAddr::from_parts(id, addrs))).await {
                        Ok(rx) => rx,
                        Err(_) => {
                            if mode == Mode::C21 {
                                ctx.violate("request-never-accepted-map-stalled", format!("op{i}: resolve for r{r} was not taken up by any state instance within 600 virtual seconds (the remote map is stuck waiting)"));
                            }
                            return;
                        }
                    };
                    reqs.push(Req { remote: *r, port: first_port, n_addrs: *n_addrs, issued, issue_idx });
                    let answers = answers.clone();
                    let ctx = ctx.clone();
                    tokio::task::spawn_local(async move {
                        let res = rx.await;
                        let s = match res {
                            Ok(Ok(())) => "ok".to_string(),
                            Ok(Err(AddressLookupFailed::NoResults { .. })) => "err:no-results".to_string(),
                            Ok(Err(AddressLookupFailed::NoServiceConfigured { .. })) => "err:no-service".to_string(),
                            Ok(Err(_)) => "err:other".to_string(),
                            Err(_) => "dropped".to_string(),
                        };
                        ctx.ev(format!("answer req{issue_idx} {s} t={}", t0.elapsed().as_millis()));
                        answers.lock().unwrap().insert(issue_idx, (at(), s));
                    });
                }
                Op::Advance(ms) => {
                    tokio::time::sleep(Duration::from_millis(*ms)).await;
                    ctx.ev(format!("op{i} advance {ms} t={}", t0.elapsed().as_millis()));
                }
                Op::Cleanup => {
                    // the socket actor's cleanup branch: run until nothing is left to clean up
                    let mut n = 0;
                    while let Ok(id) = tokio::time::timeout(Duration::ZERO, h.cleanup()).await {
                        n += 1;
                        let r = (0..2u8).find(|k| remote(*k) == id);
                        ctx.ev(format!("op{i} cleanup removed r{r:?}"));
                        if n > 8 {
                            break;
                        }
                    }
                    ctx.count("probe.cleanup_polls");
                }
                Op::NetworkChange => h.on_network_change(i % 2 == 0),
                Op::RemoteInfo { remote: r } => {
                    if let Some(rx) = h.remote_info(remote(*r)) {
                        info_rx.push((*r, at(), rx));
                    }
                }
                Op::Yield(n) => yields(*n as u32).await,
                Op::AwaitCloseWindow => {
                    let hit = tokio::time::timeout(Duration::from_secs(70), close_window.notified()).await.is_ok();
                    ctx.ev(format!("op{i} await-close-window hit={hit} t={}", t0.elapsed().as_millis()));
                    if hit {
                        ctx.count("probe.ops_inside_close_window");
                    }
                }
            }
        }
        // settle: all lookups finish (<= ~1.5 s each), cleanup keeps running like in the socket actor
        for _ in 0..6 {
            tokio::time::sleep(Duration::from_millis(500)).await;
            while tokio::time::timeout(Duration::ZERO, h.cleanup()).await.is_ok() {}
        }
        yields(8).await;
        let answers = answers.lock().unwrap().clone();
        let events = events.lock().unwrap().clone();
        let log = log.lock().unwrap();
        let ms = |t: &At| t.1.duration_since(t0).as_millis() as u64;
        // actor instances per remote: (start, stop)
        let mut instances: BTreeMap<u8, Vec<(At, Option<At>)>> = BTreeMap::new();
        for (site, data, t) in &events {
            let Some(r) = (0..2u8).find(|k| data.starts_with(&remote(*k).to_string())) else { continue };
            let v = instances.entry(r).or_default();
            match site.as_str() {
                "remote_actor.start" => {
                    if v.last().is_some_and(|l| l.1.is_none()) {
                        if mode == Mode::C21 {
                            ctx.violate("two-live-state-instances-for-one-remote", format!("r{r}: a second actor started at {} ms while the previous one was still running", ms(t)));
                        }
                        return;
                    }
                    v.push((*t, None));
                }
                "remote_actor.stop" => {
                    if let Some(l) = v.last_mut() {
                        l.1 = Some(*t);
                    }
                    if data.contains("leftover=") && !data.ends_with("leftover=0") {
                        ctx.count("probe.actor_stopped_with_leftover_messages");
                    }
                }
                _ => {}
            }
        }
        let restarts = instances.values().filter(|v| v.len() >= 2).count();
        // ---- C21 and C22: every request is answered (exactly once: the reply channel is a oneshot) ----
        {
            for q in &reqs {
                match answers.get(&q.issue_idx) {
                    None => {
                        ctx.violate("request-never-answered", format!("resolve #{} for r{} issued at {} ms has no answer after all lookups finished", q.issue_idx, q.remote, ms(&q.issued)));
                        return;
                    }
                    Some((_, s)) if s == "dropped" => {
                        ctx.violate("request-dropped", format!("resolve #{} for r{} issued at {} ms: its reply channel was dropped without an answer", q.issue_idx, q.remote, ms(&q.issued)));
                        return;
                    }
                    _ => {}
                }
            }
        }
        // ---- C21: requests are handled in issue order ----
        if mode == Mode::C21 {
            // handling order per remote = issue order (requests with addresses carry a unique port)
            for r in 0..2u8 {
                let handled: Vec<u16> = events
                    .iter()
                    .filter(|(s, d, _)| s == "remote_actor.handle" && d.starts_with(&remote(r).to_string()) && d.contains("resolve"))
                    .filter_map(|(_, d, _)| d.split("127.0.0.1:").nth(1).and_then(|x| x.split(|c: char| !c.is_ascii_digit()).next()).and_then(|x| x.parse().ok()))
                    .collect();
                let issued: Vec<u16> = reqs.iter().filter(|q| q.remote == r).filter_map(|q| q.port).collect();
                if handled != issued {
                    ctx.violate("requests-processed-out-of-order", format!("r{r}: issued (by first address port) {issued:?}, handled {handled:?}"));
                    return;
                }
                let n_handled = events.iter().filter(|(s, d, _)| s == "remote_actor.handle" && d.starts_with(&remote(r).to_string()) && d.contains("resolve")).count();
                let n_issued = reqs.iter().filter(|q| q.remote == r).count();
                if n_handled != n_issued {
                    ctx.violate("request-not-processed-exactly-once", format!("r{r}: {n_issued} resolve requests issued, {n_handled} handled by its state"));
                    return;
                }
            }
            for (r, _t, mut rx) in info_rx {
                if let Err(tokio::sync::oneshot::error::TryRecvError::Closed) = rx.try_recv() {
                    // a RemoteInfo sent through the sender map may hit an actor that is shutting
                    // down; it is then carried over as leftover and answered by the restarted actor
                    ctx.violate("remote-info-request-dropped", format!("r{r}"));
                    return;
                }
            }
        }
        // ---- C22: answered correctly ----
        if mode == Mode::C22 {
            for q in &reqs {
                let Some((t_ans, s)) = answers.get(&q.issue_idx) else { continue };
                if s == "dropped" {
                    continue; // C21's concern
                }
                // the instance that handled it
                let handle_t = events
                    .iter()
                    .filter(|(site, d, _)| site == "remote_actor.handle" && d.starts_with(&remote(q.remote).to_string()) && d.contains("resolve"))
                    .nth(reqs.iter().filter(|x| x.remote == q.remote && x.issue_idx < q.issue_idx).count())
                    .map(|e| e.2);
                let Some(handle_t) = handle_t else { continue };
                let inst = instances.get(&q.remote).and_then(|v| v.iter().find(|(s, e)| s.0 <= handle_t.0 && e.is_none_or(|e| e.0 >= handle_t.0))).cloned();
                let Some((inst_start, inst_end)) = inst else { continue };
                let in_inst = |t: &At| t.0 >= inst_start.0 && inst_end.is_none_or(|e| t.0 <= e.0);
                // instants at which a path became known in this instance
                let mut path_times: Vec<At> = vec![];
                for (site, d, t) in &events {
                    if site == "remote_actor.handle" && d.starts_with(&remote(q.remote).to_string()) && d.contains("127.0.0.1:") && in_inst(t) {
                        path_times.push(*t);
                    }
                }
                for (id, t, yields_path) in &log.items {
                    if *id == remote(q.remote) && *yields_path && in_inst(t) {
                        path_times.push(*t);
                    }
                }
                let first_path = path_times.iter().min().copied();
                let known_at_handle = first_path.is_some_and(|p| p.0 <= handle_t.0);
                if s == "ok" {
                    match first_path {
                        None => {
                            ctx.violate("resolve-ok-without-known-path", format!("resolve #{} for r{} answered Ok at {} ms but no path to the remote was ever known to that state", q.issue_idx, q.remote, ms(t_ans)));
                            return;
                        }
                        Some(p) => {
                            if ms(t_ans) + 1 < ms(&p) {
                                ctx.violate("resolve-ok-before-path-known", format!("resolve #{} answered Ok at {} ms, first path known at {} ms", q.issue_idx, ms(t_ans), ms(&p)));
                                return;
                            }
                            let due = if p.0 > handle_t.0 { p } else { handle_t };
                            if ms(t_ans) > ms(&due) + 1 {
                                ctx.violate(
                                    "resolve-success-delayed",
                                    format!("resolve #{} for r{}: handled at {} ms, a path was known at {} ms, but Ok only arrived at {} ms", q.issue_idx, q.remote, ms(&handle_t), ms(&p), ms(t_ans)),
                                );
                                return;
                            }
                            if known_at_handle {
                                ctx.count("probe.immediate_ok");
                            } else {
                                ctx.count("probe.ok_after_lookup_item");
                            }
                        }
                    }
                } else {
                    // failure: no path known at answer time, and a lookup had finished (or none configured)
                    if first_path.is_some_and(|p| ms(&p) < ms(t_ans)) {
                        ctx.violate("resolve-failed-although-path-known", format!("resolve #{} for r{} answered {s} at {} ms although a path was known since {} ms", q.issue_idx, q.remote, ms(t_ans), ms(&first_path.unwrap())));
                        return;
                    }
                    let lookups_started = log.started.iter().any(|(id, t)| *id == remote(q.remote) && in_inst(t) && t.0 <= t_ans.0);
                    let lookup_ended = log.ended.iter().any(|(id, t)| *id == remote(q.remote) && in_inst(t) && t.0 <= t_ans.0);
                    if lookups_started && !lookup_ended {
                        ctx.violate("resolve-failed-before-lookup-finished", format!("resolve #{} for r{} answered {s} at {} ms while its address lookup was still running", q.issue_idx, q.remote, ms(t_ans)));
                        return;
                    }
                    ctx.count("probe.resolve_failed_after_lookup");
                }
            }
        }
        if restarts > 0 {
            ctx.count("probe.actor_restarted");
        }
        if reqs.len() >= 2 && (restarts > 0 || !log.items.is_empty()) {
            ctx.nontrivial();
        }
        h.shutdown();
        drop(h);
        yields(4).await;
    });
    drop(hook);
}

pub struct C21;
pub struct C22;

fn shrink(case: &Case) -> Vec<Case> {
    let mut out = vec![];
    for ops in fw::shrink_vec(&case.ops) {
        if ops.is_empty() {
            continue;
        }
        let mut c = case.clone();
        c.ops = ops;
        out.push(c);
    }
    if !case.services.is_empty() {
        let mut c = case.clone();
        c.services.pop();
        out.push(c);
    }
    out
}

macro_rules! prop {
    ($t:ident, $id:expr, $mode:expr, $rule:expr) => {
        impl Typed for $t {
            type Case = Case;
            fn gen_case(&self, rng: &mut Rng, _tier: Tier) -> Case {
                gen_case(rng)
            }
            fn exec_case(&self, case: &Case, ctx: &Ctx) {
                exec($mode, case, ctx)
            }
            fn shrink_case(&self, case: &Case) -> Vec<Case> {
                shrink(case)
            }
        }
        impl Property for $t {
            fn id(&self) -> &'static str {
                $id
            }
            fn rule(&self) -> String {
                $rule.into()
            }
            fn assumptions(&self) -> Vec<String> {
                vec![
                    "registration of live QUIC connections (AddConnection) is not driven here; it is reached by the endpoint-level checks".into(),
                    "lookup services always finish (the statement conditions on that)".into(),
                    "the socket actor's cleanup select-branch is emulated by polling RemoteMap::cleanup with a zero timeout at scripted points and during the final settle".into(),
                ]
            }
            fn real_vs_stub(&self) -> Value {
                json!({"real": ["socket::remote_map::RemoteMap::{resolve_remote, send_to_actor, cleanup, remove_or_restart_actor, on_network_change}", "RemoteStateActor::{start, run, handle_message, is_idle}", "RemotePathState::{insert_multiple, resolve_remote, address_lookup_finished}", "AddressLookupServices::resolve"], "stub": ["socket actor (harness issues the same calls)", "lookup services (scripted)", "clock"]})
            }
            fn runs(&self, tier: Tier) -> u64 {
                match tier {
                    Tier::Quick => 20_000,
                    Tier::Thorough => 1_500_000,
                }
            }
            fn generate(&self, seed: u64, tier: Tier) -> Value {
                fw::typed_generate(self, seed, tier)
            }
            fn execute(&self, case: &Value, ctx: &Ctx) {
                fw::typed_execute(self, case, ctx)
            }
            fn shrink(&self, case: &Value) -> Vec<Value> {
                fw::typed_shrink(self, case)
            }
        }
    };
}

prop!(C21, "C21", Mode::C21, "case = 0..2 scripted lookup services + 3..14 ops from {resolve(remote 0/1, 0..2 fresh addresses), advance virtual time (biased to 60 s +-10 ms idle expiry), run the cleanup branch, network change, remote-info through the sender map, yields}; non-trivial = >=2 requests and (an actor restarted or a lookup produced items); distinct = distinct history hash");
prop!(C22, "C22", Mode::C22, "case = as C21; the oracle derives, per actor instance, the instants at which a path became known (a handled resolve with addresses, a lookup item with addresses for the right endpoint) and the instants lookups finished, and checks every answer's kind and timing against them; non-trivial as C21; distinct = distinct history hash");
