//! C01 — dialing by public key authenticates the remote endpoint.
//!
//! Real iroh `Endpoint`s (real noq, real rustls with iroh's raw-public-key verifiers and resolver)
//! on `SimNet`, against (a) honest iroh endpoints, (b) impostor iroh endpoints reached through a
//! hijacked or competing address, and (c) a bare `noq::Endpoint` adversary on the same network whose
//! rustls configuration presents crafted certificates / chains / certificate types and signs the
//! handshake with a key of its choosing. Every adversary kind has an honest control that holds the
//! right secret key, so a run in which nothing can connect is not mistaken for a pass.

use std::{
    sync::{Arc, Mutex},
    time::Duration,
};

use iroh::{Endpoint, RelayMode, endpoint::presets};
use iroh_base::{EndpointAddr, EndpointId, SecretKey};
use iroh_dns::dns::DnsResolver;
use rustls::{
    DigitallySignedStruct, DistinguishedName, SignatureScheme,
    client::danger::{HandshakeSignatureValid, ServerCertVerified, ServerCertVerifier},
    pki_types::{CertificateDer, ServerName, UnixTime},
    server::danger::{ClientCertVerified, ClientCertVerifier},
};
use serde::{Deserialize, Serialize};
use serde_json::{Value, json};

use crate::fw::{
    self, Ctx, Property, Rng, Tier, Typed,
    rt::run_e1,
    simio::SimResolver,
    simnet::{NetCfg, SimNet, slot_sockaddr},
};

const ALPN: &[u8] = b"sim/c01";

fn secret(k: u8) -> SecretKey {
    SecretKey::from_bytes(&[0x40 + k; 32])
}

fn spki(id: &EndpointId) -> Vec<u8> {
    rustls::sign::public_key_to_spki(&rustls::pki_types::alg_id::ED25519, id.as_bytes()).to_vec()
}

/// What the adversary presents as its certificate (list) and how it signs the handshake.
#[derive(Clone, Debug, Serialize, Deserialize, PartialEq)]
pub enum Forge {
    /// control: really holds the expected key
    Honest,
    /// raw public key of its own (different) key, signed with that key
    ForeignKey,
    /// the expected key's public key as certificate, handshake signed with its own key
    StolenPublicKey,
    /// the expected key's public key, signature = seeded bytes of this length
    GarbageSignature(u8),
    /// [expected public key, own public key] as a chain, signed with its own key
    ExtraIntermediate,
    /// [own public key, expected public key]: right key only as an intermediate
    ExpectedKeyAsIntermediate,
    /// not raw-public-key typed: opaque bytes offered as an X.509 certificate
    X509Typed,
    /// the expected key bytes inside a tampered SubjectPublicKeyInfo (variant 0..4)
    MalformedSpki(u8),
    /// no certificate at all (client role only)
    NoCertificate,
    /// the identity in play is a small-order curve point (nobody can hold a secret key for it); the
    /// adversary presents it and a "signature" that needs no secret: sig 0 = (R = base point, s = 1),
    /// 1 = (R = neutral, s = 0), 2 = (R = the point itself, s = 0)
    SmallOrder { point: u8, sig: u8 },
}

/// Encodings of the eight small-order points of edwards25519 (order 1, 2, 4, 4, 8, 8, 8, 8).
const SMALL_ORDER: [&str; 8] = [
    "0100000000000000000000000000000000000000000000000000000000000000",
    "ecffffffffffffffffffffffffffffffffffffffffffffffffffffffffffff7f",
    "0000000000000000000000000000000000000000000000000000000000000000",
    "0000000000000000000000000000000000000000000000000000000000000080",
    "26e8958fc2b227b045c3f489f2ef98f0d5dfac05d3c63339b13802886d53fc05",
    "26e8958fc2b227b045c3f489f2ef98f0d5dfac05d3c63339b13802886d53fc85",
    "c7176a703d4dd84fba3c0b760d10670f2a2053fa2c39ccc64ec7fd7792ac037a",
    "c7176a703d4dd84fba3c0b760d10670f2a2053fa2c39ccc64ec7fd7792ac03fa",
];

fn small_order_id(point: u8) -> Option<EndpointId> {
    let bytes = data_encoding::HEXLOWER.decode(SMALL_ORDER[point as usize % 8].as_bytes()).ok()?;
    EndpointId::from_bytes(&bytes.try_into().ok()?).ok()
}

fn secretless_signature(point: u8, sig: u8) -> Vec<u8> {
    let mut v = vec![0u8; 64];
    match sig % 3 {
        0 => {
            v[..32].copy_from_slice(&[0x66; 32]);
            v[0] = 0x58; // the base point
            v[32] = 1; // s = 1
        }
        1 => v[0] = 1, // R = neutral element, s = 0
        _ => {
            let p = data_encoding::HEXLOWER.decode(SMALL_ORDER[point as usize % 8].as_bytes()).unwrap();
            v[..32].copy_from_slice(&p);
        }
    }
    v
}

fn malformed_spki(expected: &EndpointId, own: &EndpointId, variant: u8) -> Vec<u8> {
    let mut v = spki(expected);
    match variant % 5 {
        0 => v.push(0),                         // trailing byte
        1 => v[8] ^= 1,                         // algorithm OID altered
        2 => {
            let n = v.len();
            v[n - 33] = 1                       // "unused bits" of the bit string
        }
        3 => {
            // own key's SPKI followed by the expected key bytes
            v = spki(own);
            v.extend_from_slice(expected.as_bytes());
        }
        _ => {
            v.truncate(v.len() - 1);            // 31 key bytes
        }
    }
    v
}

#[derive(Debug)]
struct AdvKey {
    forge: Forge,
    /// key the adversary really holds
    own: SecretKey,
    /// secret of the expected key: only used by the Honest control
    expected_secret: SecretKey,
    /// the identity the adversary claims (the dialed id / the impersonated client)
    expected_id: EndpointId,
    garbage: Vec<u8>,
}

impl AdvKey {
    fn chain(&self) -> Vec<CertificateDer<'static>> {
        let exp = self.expected_id;
        let own = self.own.public();
        let c = |b: Vec<u8>| CertificateDer::from(b);
        match &self.forge {
            Forge::SmallOrder { .. } => vec![c(spki(&exp))],
            Forge::Honest => vec![c(spki(&exp))],
            Forge::ForeignKey => vec![c(spki(&own))],
            Forge::StolenPublicKey | Forge::GarbageSignature(_) => vec![c(spki(&exp))],
            Forge::ExtraIntermediate => vec![c(spki(&exp)), c(spki(&own))],
            Forge::ExpectedKeyAsIntermediate => vec![c(spki(&own)), c(spki(&exp))],
            Forge::X509Typed => vec![c(self.garbage.clone())],
            Forge::MalformedSpki(v) => vec![c(malformed_spki(&exp, &own, *v))],
            Forge::NoCertificate => vec![],
        }
    }
    fn raw_keys_only(&self) -> bool {
        !matches!(self.forge, Forge::X509Typed)
    }
}

impl rustls::sign::SigningKey for AdvKey {
    fn choose_scheme(&self, offered: &[SignatureScheme]) -> Option<Box<dyn rustls::sign::Signer>> {
        offered.contains(&SignatureScheme::ED25519).then(|| {
            Box::new(AdvKey { forge: self.forge.clone(), own: self.own.clone(), expected_secret: self.expected_secret.clone(), expected_id: self.expected_id, garbage: self.garbage.clone() }) as Box<dyn rustls::sign::Signer>
        })
    }
    fn algorithm(&self) -> rustls::SignatureAlgorithm {
        rustls::SignatureAlgorithm::ED25519
    }
    fn public_key(&self) -> Option<rustls::pki_types::SubjectPublicKeyInfoDer<'_>> {
        self.chain().first().map(|c| rustls::pki_types::SubjectPublicKeyInfoDer::from(c.as_ref().to_vec()))
    }
}

impl rustls::sign::Signer for AdvKey {
    fn sign(&self, message: &[u8]) -> Result<Vec<u8>, rustls::Error> {
        Ok(match &self.forge {
            Forge::Honest => self.expected_secret.sign(message).to_bytes().to_vec(),
            Forge::GarbageSignature(n) => self.garbage.iter().copied().cycle().take(*n as usize).collect(),
            Forge::SmallOrder { point, sig } => secretless_signature(*point, *sig),
            _ => self.own.sign(message).to_bytes().to_vec(),
        })
    }
    fn scheme(&self) -> SignatureScheme {
        SignatureScheme::ED25519
    }
}

#[derive(Debug)]
struct AdvResolver {
    key: Arc<rustls::sign::CertifiedKey>,
    raw_only: bool,
    has: bool,
}

impl AdvResolver {
    fn new(k: AdvKey) -> Self {
        let raw_only = k.raw_keys_only();
        let chain = k.chain();
        let has = !chain.is_empty();
        AdvResolver { key: Arc::new(rustls::sign::CertifiedKey::new(chain, Arc::new(k))), raw_only, has }
    }
}

impl rustls::server::ResolvesServerCert for AdvResolver {
    fn resolve(&self, _hello: rustls::server::ClientHello<'_>) -> Option<Arc<rustls::sign::CertifiedKey>> {
        Some(self.key.clone())
    }
    fn only_raw_public_keys(&self) -> bool {
        self.raw_only
    }
}

impl rustls::client::ResolvesClientCert for AdvResolver {
    fn resolve(&self, _hints: &[&[u8]], _schemes: &[SignatureScheme]) -> Option<Arc<rustls::sign::CertifiedKey>> {
        self.has.then(|| self.key.clone())
    }
    fn only_raw_public_keys(&self) -> bool {
        self.raw_only
    }
    fn has_certs(&self) -> bool {
        self.has
    }
}

/// The adversary does not care who it talks to.
#[derive(Debug)]
struct AcceptAnything;

impl ServerCertVerifier for AcceptAnything {
    fn verify_server_cert(&self, _e: &CertificateDer<'_>, _i: &[CertificateDer<'_>], _n: &ServerName<'_>, _o: &[u8], _t: UnixTime) -> Result<ServerCertVerified, rustls::Error> {
        Ok(ServerCertVerified::assertion())
    }
    fn verify_tls12_signature(&self, _m: &[u8], _c: &CertificateDer<'_>, _d: &DigitallySignedStruct) -> Result<HandshakeSignatureValid, rustls::Error> {
        Ok(HandshakeSignatureValid::assertion())
    }
    fn verify_tls13_signature(&self, _m: &[u8], _c: &CertificateDer<'_>, _d: &DigitallySignedStruct) -> Result<HandshakeSignatureValid, rustls::Error> {
        Ok(HandshakeSignatureValid::assertion())
    }
    fn supported_verify_schemes(&self) -> Vec<SignatureScheme> {
        vec![SignatureScheme::ED25519]
    }
    fn requires_raw_public_keys(&self) -> bool {
        true
    }
}

impl ClientCertVerifier for AcceptAnything {
    fn offer_client_auth(&self) -> bool {
        true
    }
    fn client_auth_mandatory(&self) -> bool {
        false
    }
    fn root_hint_subjects(&self) -> &[DistinguishedName] {
        &[]
    }
    fn verify_client_cert(&self, _e: &CertificateDer<'_>, _i: &[CertificateDer<'_>], _t: UnixTime) -> Result<ClientCertVerified, rustls::Error> {
        Ok(ClientCertVerified::assertion())
    }
    fn verify_tls12_signature(&self, _m: &[u8], _c: &CertificateDer<'_>, _d: &DigitallySignedStruct) -> Result<HandshakeSignatureValid, rustls::Error> {
        Ok(HandshakeSignatureValid::assertion())
    }
    fn verify_tls13_signature(&self, _m: &[u8], _c: &CertificateDer<'_>, _d: &DigitallySignedStruct) -> Result<HandshakeSignatureValid, rustls::Error> {
        Ok(HandshakeSignatureValid::assertion())
    }
    fn supported_verify_schemes(&self) -> Vec<SignatureScheme> {
        vec![SignatureScheme::ED25519]
    }
    fn requires_raw_public_keys(&self) -> bool {
        true
    }
}

fn provider() -> Arc<rustls::crypto::CryptoProvider> {
    Arc::new(rustls::crypto::ring::default_provider())
}

fn adv_server_config(k: AdvKey) -> Result<noq::ServerConfig, String> {
    let mut crypto = rustls::ServerConfig::builder_with_provider(provider())
        .with_protocol_versions(&[&rustls::version::TLS13])
        .map_err(|e| e.to_string())?
        .with_client_cert_verifier(Arc::new(AcceptAnything))
        .with_cert_resolver(Arc::new(AdvResolver::new(k)));
    crypto.alpn_protocols = vec![ALPN.to_vec()];
    crypto.max_early_data_size = u32::MAX;
    let quic = noq::crypto::rustls::QuicServerConfig::try_from(crypto).map_err(|e| e.to_string())?;
    Ok(noq::ServerConfig::with_crypto(Arc::new(quic)))
}

fn adv_client_config(k: AdvKey) -> Result<noq::ClientConfig, String> {
    let mut crypto = rustls::ClientConfig::builder_with_provider(provider())
        .with_protocol_versions(&[&rustls::version::TLS13])
        .map_err(|e| e.to_string())?
        .dangerous()
        .with_custom_certificate_verifier(Arc::new(AcceptAnything))
        .with_client_cert_resolver(Arc::new(AdvResolver::new(k)));
    crypto.alpn_protocols = vec![ALPN.to_vec()];
    let quic = noq::crypto::rustls::QuicClientConfig::try_from(crypto).map_err(|e| e.to_string())?;
    Ok(noq::ClientConfig::new(Arc::new(quic)))
}

async fn iroh_ep(net: &SimNet, slot: u8, key: &SecretKey, serve: bool) -> Result<Endpoint, String> {
    let mut b = Endpoint::builder(presets::Minimal)
        .secret_key(key.clone())
        .relay_mode(RelayMode::Disabled)
        .clear_ip_transports()
        .portmapper_config(iroh::endpoint::PortmapperConfig::Disabled)
        .dns_resolver(DnsResolver::custom(SimResolver::new(vec![], vec![], vec![])))
        .add_custom_transport(net.transport(slot))
        .address_lookup(net.lookup());
    if serve {
        b = b.alpns(vec![ALPN.to_vec()]);
    }
    let ep = b.bind().await.map_err(|e| format!("bind failed: {e:#}"))?;
    crate::fw::rt::settle_after_bind().await;
    Ok(ep)
}

#[derive(Clone, Debug, Serialize, Deserialize, PartialEq)]
pub enum Scenario {
    /// victim dials K; a real iroh endpoint holding K answers
    DialHonest,
    /// victim dials K; K's address leads to an iroh endpoint holding another key
    DialImpostorEndpoint,
    /// victim dials K; the lookup offers the real holder's and an impostor's address
    DialTwoRoutes { impostor_first: bool },
    /// victim dials K; K's address leads to a bare noq server forging its identity
    DialRawServer(Forge),
    /// a bare noq client forging its identity dials an iroh endpoint
    RawClient(Forge),
    /// the victim first connects to the real holder of K (obtaining a session ticket), then K's
    /// address is hijacked and the victim dials again with 0-RTT: to an iroh endpoint holding another
    /// key (None) or to a bare noq server with the given forgery
    ZeroRttAfterHijack(Option<Forge>),
}

#[derive(Clone, Debug, Serialize, Deserialize)]
pub struct Case {
    pub net: NetCfg,
    pub scenario: Scenario,
    pub seed: u64,
}

pub struct C01;

fn gen_forge(rng: &mut Rng, client: bool) -> Forge {
    match rng.below(if client { 12 } else { 11 }) {
        9 | 10 if !client => Forge::SmallOrder { point: rng.below(8) as u8, sig: rng.below(3) as u8 },
        10 | 11 => Forge::SmallOrder { point: rng.below(8) as u8, sig: rng.below(3) as u8 },
        0 => Forge::Honest,
        1 => Forge::ForeignKey,
        2 => Forge::StolenPublicKey,
        3 => Forge::GarbageSignature(*rng.pick(&[0u8, 1, 63, 64, 64, 65, 128])),
        4 => Forge::ExtraIntermediate,
        5 => Forge::ExpectedKeyAsIntermediate,
        6 => Forge::X509Typed,
        7 | 8 => Forge::MalformedSpki(rng.below(5) as u8),
        _ => Forge::NoCertificate,
    }
}

/// (side, remote id reported, id of the key the peer really holds)
type Established = Arc<Mutex<Vec<(&'static str, EndpointId)>>>;

impl Typed for C01 {
    type Case = Case;

    fn gen_case(&self, rng: &mut Rng, _tier: Tier) -> Case {
        let scenario = match rng.below(12) {
            10 | 11 => Scenario::ZeroRttAfterHijack(if rng.coin() { None } else { Some(gen_forge(rng, false)) }),
            0 => Scenario::DialHonest,
            1 => Scenario::DialImpostorEndpoint,
            2 => Scenario::DialTwoRoutes { impostor_first: rng.coin() },
            3..=6 => Scenario::DialRawServer(gen_forge(rng, false)),
            _ => Scenario::RawClient(gen_forge(rng, true)),
        };
        let net = if rng.chance(1, 2) {
            NetCfg::default()
        } else {
            NetCfg { drop_pm: *rng.pick(&[0u32, 0, 20, 100]), dup_pm: *rng.pick(&[0u32, 0, 100]), reorder_pm: *rng.pick(&[0u32, 0, 200]), delay_max_ms: *rng.pick(&[0u64, 2, 30, 120]), ..Default::default() }
        };
        Case { net, scenario, seed: rng.next_u64() }
    }

    fn exec_case(&self, case: &Case, ctx: &Ctx) {
        let case = case.clone();
        let ctx2 = ctx.clone();
        run_e1(case.seed, true, ctx, async move {
            let ctx = ctx2;
            let net = SimNet::new(case.seed, case.net.clone());
            let lossless = case.net.drop_pm == 0;
            // keys: 0 = K (the id being dialed / the honest server), 1 = victim client, 2 = adversary's own
            let (k, victim, adv) = (secret(0), secret(1), secret(2));
            let mut garbage_rng = Rng::new(case.seed ^ 0x6a7b);
            let garbage = garbage_rng.bytes(96);
            let advkey = |forge: &Forge, expected: &SecretKey| AdvKey {
                forge: forge.clone(),
                own: adv.clone(),
                expected_secret: expected.clone(),
                expected_id: match forge {
                    Forge::SmallOrder { point, .. } => small_order_id(*point).unwrap_or(expected.public()),
                    _ => expected.public(),
                },
                garbage: garbage.clone(),
            };
            ctx.ev(format!("scenario {:?}", case.scenario));
            // records every connection an *iroh* endpoint reports as established: (who, remote_id it reports)
            let established: Established = Default::default();
            let serve = |ep: Endpoint, who: &'static str| {
                let est = established.clone();
                tokio::task::spawn_local(async move {
                    while let Some(inc) = ep.accept().await {
                        let est = est.clone();
                        tokio::task::spawn_local(async move {
                            if let Ok(conn) = inc.await {
                                est.lock().unwrap().push((who, conn.remote_id()));
                                conn.closed().await;
                            }
                        });
                    }
                })
            };
            match &case.scenario {
                Scenario::DialHonest | Scenario::DialImpostorEndpoint | Scenario::DialTwoRoutes { .. } => {
                    let real = if case.scenario != Scenario::DialImpostorEndpoint { Some(iroh_ep(&net, 0, &k, true).await) } else { None };
                    let imp = if case.scenario != Scenario::DialHonest { Some(iroh_ep(&net, 2, &adv, true).await) } else { None };
                    let cl = iroh_ep(&net, 1, &victim, false).await;
                    let (real, imp, cl) = match (real.transpose(), imp.transpose(), cl) {
                        (Ok(a), Ok(b), Ok(c)) => (a, b, c),
                        (a, b, c) => {
                            ctx.violate("harness-bind", format!("{:?} {:?} {:?}", a.err(), b.err(), c.err()));
                            return;
                        }
                    };
                    match &case.scenario {
                        Scenario::DialHonest => net.route(k.public(), 0),
                        Scenario::DialImpostorEndpoint => net.route(k.public(), 2),
                        Scenario::DialTwoRoutes { impostor_first } => net.route_multi(k.public(), if *impostor_first { &[2, 0] } else { &[0, 2] }),
                        _ => unreachable!(),
                    }
                    let mut tasks = vec![];
                    if let Some(r) = &real {
                        tasks.push(serve(r.clone(), "real-server"));
                    }
                    if let Some(i) = &imp {
                        tasks.push(serve(i.clone(), "impostor-server"));
                    }
                    let res = tokio::time::timeout(Duration::from_secs(45), cl.connect(EndpointAddr::new(k.public()), ALPN)).await;
                    let ok = matches!(res, Ok(Ok(_)));
                    ctx.ev(format!("victim connect(K) -> {}", if ok { "established" } else { "failed" }));
                    if let Ok(Ok(conn)) = &res {
                        if conn.remote_id() != k.public() {
                            ctx.violate("dialer-reports-wrong-remote-id", format!("dialed {} but the connection reports {}", k.public().fmt_short(), conn.remote_id().fmt_short()));
                            return;
                        }
                    }
                    tokio::time::sleep(Duration::from_secs(3)).await;
                    let est = established.lock().unwrap().clone();
                    for (who, rid) in &est {
                        ctx.ev(format!("{who} established with remote_id={}", if *rid == victim.public() { "victim" } else { "other" }));
                        if *rid != victim.public() {
                            ctx.violate("listener-reports-wrong-remote-id", format!("{who} reports remote id {} for a connection from the victim", rid.fmt_short()));
                            return;
                        }
                    }
                    if est.iter().any(|(who, _)| *who == "impostor-server") {
                        ctx.violate("impostor-completed-handshake-as-dialed-id", "an endpoint holding another key accepted the victim's connection to K".to_string());
                        return;
                    }
                    match &case.scenario {
                        Scenario::DialImpostorEndpoint => {
                            if ok {
                                ctx.violate("connected-to-endpoint-without-the-secret-key", "connect(K) completed although only an endpoint holding another key was reachable".to_string());
                                return;
                            }
                            ctx.count("probe.impostor_endpoint_refused");
                        }
                        Scenario::DialHonest => {
                            if lossless && !ok {
                                ctx.violate("honest-dial-failed-without-faults", format!("{:?}", res.err()));
                                return;
                            }
                            if ok {
                                ctx.count("probe.honest_dial_established");
                            }
                        }
                        _ => {
                            if ok {
                                if !est.iter().any(|(who, _)| *who == "real-server") && lossless {
                                    ctx.violate("established-but-real-holder-saw-no-connection", "connect(K) completed, the holder of K never saw it".to_string());
                                    return;
                                }
                                ctx.count("probe.two_routes_established_with_real");
                            } else {
                                ctx.count("probe.two_routes_failed");
                            }
                        }
                    }
                    for t in tasks {
                        t.abort();
                    }
                    let _ = tokio::time::timeout(Duration::from_secs(30), cl.close()).await;
                    if let Some(r) = real {
                        let _ = tokio::time::timeout(Duration::from_secs(30), r.close()).await;
                    }
                    if let Some(i) = imp {
                        let _ = tokio::time::timeout(Duration::from_secs(30), i.close()).await;
                    }
                }
                Scenario::DialRawServer(forge) => {
                    let cfg = match adv_server_config(advkey(forge, &k)) {
                        Ok(c) => c,
                        Err(e) => {
                            // rustls refused to even build this forgery: nothing to attack with
                            ctx.ev(format!("forgery not constructible: {e}"));
                            ctx.count("probe.forgery_not_constructible");
                            return;
                        }
                    };
                    let raw = match noq::Endpoint::new_with_abstract_socket(noq::EndpointConfig::default(), Some(cfg), net.udp_socket(2), Arc::new(noq::TokioRuntime)) {
                        Ok(e) => e,
                        Err(e) => {
                            ctx.violate("harness-bind", format!("raw endpoint: {e}"));
                            return;
                        }
                    };
                    let cl = match iroh_ep(&net, 1, &victim, false).await {
                        Ok(c) => c,
                        Err(e) => {
                            ctx.violate("harness-bind", e);
                            return;
                        }
                    };
                    // the id being dialed: K, or a small-order point nobody holds a key for
                    let dialed: EndpointId = match forge {
                        Forge::SmallOrder { point, .. } => match small_order_id(*point) {
                            Some(id) => id,
                            None => {
                                ctx.count("probe.small_order_id_not_representable");
                                return;
                            }
                        },
                        _ => k.public(),
                    };
                    net.route(dialed, 2);
                    let adv_done: Arc<Mutex<Vec<bool>>> = Default::default();
                    let ad = adv_done.clone();
                    let raw2 = raw.clone();
                    let acc = tokio::task::spawn_local(async move {
                        while let Some(inc) = raw2.accept().await {
                            let ad = ad.clone();
                            tokio::task::spawn_local(async move {
                                let r = inc.await;
                                ad.lock().unwrap().push(r.is_ok());
                                if let Ok(c) = r {
                                    c.closed().await;
                                }
                            });
                        }
                    });
                    let res = tokio::time::timeout(Duration::from_secs(45), cl.connect(EndpointAddr::new(dialed), ALPN)).await;
                    let ok = matches!(res, Ok(Ok(_)));
                    ctx.ev(format!("victim connect against raw server {forge:?} -> {}", if ok { "established" } else { "failed" }));
                    if *forge == Forge::Honest {
                        // control: the adversary harness can complete a handshake when it holds the key
                        if lossless && !ok {
                            ctx.violate("control-holder-of-key-could-not-connect", format!("{:?}", res.as_ref().err()));
                            return;
                        }
                        if let Ok(Ok(conn)) = &res {
                            if conn.remote_id() != k.public() {
                                ctx.violate("dialer-reports-wrong-remote-id", format!("reports {}", conn.remote_id().fmt_short()));
                                return;
                            }
                            ctx.count("probe.control_server_established");
                        }
                    } else if ok {
                        ctx.violate("connected-to-peer-without-the-secret-key", format!("connect(K) completed against a peer that does not hold K's secret key and presented {forge:?}"));
                        return;
                    } else {
                        ctx.count("probe.forged_server_refused");
                    }
                    acc.abort();
                    let _ = tokio::time::timeout(Duration::from_secs(30), cl.close()).await;
                    raw.close(0u32.into(), b"");
                }
                Scenario::ZeroRttAfterHijack(forge) => {
                    let real = iroh_ep(&net, 0, &k, true).await;
                    let cl = iroh_ep(&net, 1, &victim, false).await;
                    let (real, cl) = match (real, cl) {
                        (Ok(a), Ok(b)) => (a, b),
                        (a, b) => {
                            ctx.violate("harness-bind", format!("{:?} {:?}", a.err(), b.err()));
                            return;
                        }
                    };
                    let t_real = serve(real.clone(), "real-server");
                    net.route(k.public(), 0);
                    // 1. honest connection: the victim's session cache now holds tickets for K
                    let first = tokio::time::timeout(Duration::from_secs(45), cl.connect(EndpointAddr::new(k.public()), ALPN)).await;
                    let Ok(Ok(c1)) = first else {
                        if lossless {
                            ctx.violate("honest-dial-failed-without-faults", format!("{:?}", first.err()));
                        }
                        return;
                    };
                    tokio::time::sleep(Duration::from_secs(1)).await;
                    c1.close(0u32.into(), b"bye");
                    tokio::time::sleep(Duration::from_secs(5)).await;
                    // 2. hijack K's address
                    let mut imp_ep = None;
                    let mut raw_ep = None;
                    let mut acc = None;
                    match forge {
                        None => match iroh_ep(&net, 2, &adv, true).await {
                            Ok(e) => {
                                acc = Some(serve(e.clone(), "impostor-server"));
                                imp_ep = Some(e);
                            }
                            Err(e) => {
                                ctx.violate("harness-bind", e);
                                return;
                            }
                        },
                        Some(f) => {
                            let Ok(cfg) = adv_server_config(advkey(f, &k)) else {
                                ctx.count("probe.forgery_not_constructible");
                                return;
                            };
                            match noq::Endpoint::new_with_abstract_socket(noq::EndpointConfig::default(), Some(cfg), net.udp_socket(2), Arc::new(noq::TokioRuntime)) {
                                Ok(e) => {
                                    let e2 = e.clone();
                                    acc = Some(tokio::task::spawn_local(async move {
                                        while let Some(inc) = e2.accept().await {
                                            tokio::task::spawn_local(async move {
                                                if let Ok(c) = inc.await {
                                                    c.closed().await;
                                                }
                                            });
                                        }
                                    }));
                                    raw_ep = Some(e);
                                }
                                Err(e) => {
                                    ctx.violate("harness-bind", format!("raw endpoint: {e}"));
                                    return;
                                }
                            }
                        }
                    }
                    net.route(k.public(), 2);
                    // the victim's remote state still remembers K's old address: the real holder is cut off,
                    // so whoever answers now is the hijacker
                    net.partition(1, 0, true);
                    net.partition(0, 1, true);
                    // 3. dial again, with 0-RTT if the ticket allows it
                    let mut used_0rtt = false;
                    let second = tokio::time::timeout(Duration::from_secs(45), async {
                        let connecting = cl.connect_with_opts(EndpointAddr::new(k.public()), ALPN, iroh::endpoint::ConnectOptions::new()).await.map_err(|e| format!("{e:#}"))?;
                        match connecting.into_0rtt() {
                            Ok(early) => {
                                used_0rtt = true;
                                // early data for K's eyes only
                                if let Ok(mut s) = early.open_uni().await {
                                    let _ = s.write_all(b"early data meant for K").await;
                                    let _ = s.finish();
                                }
                                match early.handshake_completed().await.map_err(|e| format!("{e:#}"))? {
                                    iroh::endpoint::ZeroRttStatus::Accepted(c) => Ok((c.remote_id(), true)),
                                    iroh::endpoint::ZeroRttStatus::Rejected(c) => Ok((c.remote_id(), false)),
                                }
                            }
                            Err(connecting) => connecting.await.map(|c| (c.remote_id(), false)).map_err(|e| format!("{e:#}")),
                        }
                    })
                    .await;
                    ctx.ev(format!("second dial after hijack (0-RTT used: {used_0rtt}) -> {}", match &second { Ok(Ok((_, acc))) => format!("established (early data accepted: {acc})"), Ok(Err(_)) => "failed".into(), Err(_) => "timeout".into() }));
                    let honest_raw = matches!(forge, Some(Forge::Honest));
                    if let Ok(Ok((rid, _))) = &second {
                        if !honest_raw {
                            ctx.violate("connected-to-peer-without-the-secret-key", format!("after the address of K was hijacked, a (0-RTT: {used_0rtt}) dial of K completed against a peer presenting {forge:?}; reported remote id {}", rid.fmt_short()));
                            return;
                        }
                        if *rid != k.public() {
                            ctx.violate("dialer-reports-wrong-remote-id", format!("reports {}", rid.fmt_short()));
                            return;
                        }
                    } else if honest_raw && lossless {
                        ctx.violate("control-holder-of-key-could-not-connect", format!("{second:?}"));
                        return;
                    }
                    tokio::time::sleep(Duration::from_secs(3)).await;
                    if established.lock().unwrap().iter().any(|(who, _)| *who == "impostor-server") {
                        ctx.violate("impostor-completed-handshake-as-dialed-id", "an endpoint holding another key accepted the victim's 0-RTT connection to K".to_string());
                        return;
                    }
                    if used_0rtt {
                        ctx.count("probe.zero_rtt_dial_after_hijack");
                    }
                    if second.as_ref().map(|r| r.is_err()).unwrap_or(true) {
                        ctx.count("probe.hijacked_dial_refused");
                    }
                    t_real.abort();
                    if let Some(a) = acc {
                        a.abort();
                    }
                    let _ = tokio::time::timeout(Duration::from_secs(30), cl.close()).await;
                    let _ = tokio::time::timeout(Duration::from_secs(30), real.close()).await;
                    if let Some(e) = imp_ep {
                        let _ = tokio::time::timeout(Duration::from_secs(30), e.close()).await;
                    }
                    if let Some(e) = raw_ep {
                        e.close(0u32.into(), b"");
                    }
                }
                Scenario::RawClient(forge) => {
                    let server = match iroh_ep(&net, 0, &k, true).await {
                        Ok(s) => s,
                        Err(e) => {
                            ctx.violate("harness-bind", e);
                            return;
                        }
                    };
                    let t = serve(server.clone(), "real-server");
                    // the identity the adversary claims is the victim's; it holds `adv`
                    let ccfg = match adv_client_config(advkey(forge, &victim)) {
                        Ok(c) => c,
                        Err(e) => {
                            ctx.ev(format!("forgery not constructible: {e}"));
                            ctx.count("probe.forgery_not_constructible");
                            return;
                        }
                    };
                    let raw = match noq::Endpoint::new_with_abstract_socket(noq::EndpointConfig::default(), None, net.udp_socket(2), Arc::new(noq::TokioRuntime)) {
                        Ok(e) => e,
                        Err(e) => {
                            ctx.violate("harness-bind", format!("raw endpoint: {e}"));
                            return;
                        }
                    };
                    let attempt = async {
                        let c = raw.connect_with(ccfg, slot_sockaddr(0), "localhost").map_err(|e| e.to_string())?;
                        let conn = c.await.map_err(|e| e.to_string())?;
                        // give the server time to finish (or refuse) client authentication
                        let _ = tokio::time::timeout(Duration::from_secs(5), conn.closed()).await;
                        Ok::<(), String>(())
                    };
                    let r = tokio::time::timeout(Duration::from_secs(45), attempt).await;
                    ctx.ev(format!("raw client {forge:?} -> {}", match &r { Ok(Ok(())) => "handshake completed on the adversary's side", Ok(Err(_)) => "failed", Err(_) => "timeout" }));
                    tokio::time::sleep(Duration::from_secs(3)).await;
                    let est = established.lock().unwrap().clone();
                    for (_, rid) in &est {
                        let label = if *rid == victim.public() { "victim" } else if *rid == adv.public() { "adversary-own" } else { "other" };
                        ctx.ev(format!("server established remote_id={label}"));
                    }
                    // the holder of `victim` (only the Honest control) may appear as victim; the adversary may
                    // appear as itself; nothing else may ever be reported
                    for (_, rid) in &est {
                        let legit = (*forge == Forge::Honest && *rid == victim.public()) || (*rid == adv.public() && matches!(forge, Forge::ForeignKey));
                        if !legit {
                            ctx.violate(
                                "listener-reports-identity-the-peer-did-not-prove",
                                format!("the listener reports remote id {} for a peer that presented {forge:?} and holds only {}", rid.fmt_short(), adv.public().fmt_short()),
                            );
                            return;
                        }
                    }
                    match forge {
                        Forge::Honest => {
                            if lossless && est.is_empty() {
                                ctx.violate("control-holder-of-key-could-not-connect", format!("client control: {r:?}"));
                                return;
                            }
                            if !est.is_empty() {
                                ctx.count("probe.control_client_established");
                            }
                        }
                        Forge::ForeignKey => {
                            if lossless && est.is_empty() {
                                ctx.violate("control-holder-of-key-could-not-connect", format!("client with its own key: {r:?}"));
                                return;
                            }
                            ctx.count("probe.own_key_client_reported_as_itself");
                        }
                        _ => ctx.count("probe.forged_client_refused"),
                    }
                    t.abort();
                    raw.close(0u32.into(), b"");
                    let _ = tokio::time::timeout(Duration::from_secs(30), server.close()).await;
                }
            }
            let nl = net.log();
            ctx.add("fault.packets_dropped", nl.iter().filter(|p| p.fate == "dropped").count() as u64);
            ctx.add("fault.packets_duplicated", nl.iter().filter(|p| p.fate == "duplicated").count() as u64);
            ctx.add("fault.packets_partitioned", nl.iter().filter(|p| p.fate == "partitioned").count() as u64);
            // the packet-level course of the run is part of its history (distinct interleavings)
            ctx.ev(format!("net: {} packets, {} dropped, {} duplicated, {} partitioned", nl.len(), nl.iter().filter(|p| p.fate == "dropped").count(), nl.iter().filter(|p| p.fate == "duplicated").count(), nl.iter().filter(|p| p.fate == "partitioned").count()));
            if !matches!(case.scenario, Scenario::DialHonest) {
                ctx.nontrivial();
            }
        });
    }

    fn shrink_case(&self, case: &Case) -> Vec<Case> {
        let mut out = vec![];
        // whether a secretless signature verifies for a small-order key of order > 1 depends on the
        // handshake transcript (unseeded TLS randomness); for the neutral element it does not:
        // prefer the transcript-independent variant so that the replay reproduces exactly
        let neutral = |f: &Forge| match f {
            Forge::SmallOrder { point, sig } if *point != 0 => Some(Forge::SmallOrder { point: 0, sig: *sig }),
            _ => None,
        };
        match &case.scenario {
            Scenario::DialRawServer(f) => {
                if let Some(n) = neutral(f) {
                    let mut c = case.clone();
                    c.scenario = Scenario::DialRawServer(n);
                    out.push(c);
                }
            }
            Scenario::RawClient(f) => {
                if let Some(n) = neutral(f) {
                    let mut c = case.clone();
                    c.scenario = Scenario::RawClient(n);
                    out.push(c);
                }
            }
            Scenario::ZeroRttAfterHijack(Some(f)) => {
                if let Some(n) = neutral(f) {
                    let mut c = case.clone();
                    c.scenario = Scenario::ZeroRttAfterHijack(Some(n));
                    out.push(c);
                }
            }
            _ => {}
        }
        if case.net.drop_pm + case.net.dup_pm + case.net.reorder_pm > 0 || case.net.delay_max_ms > 0 {
            let mut c = case.clone();
            c.net = NetCfg::default();
            out.push(c);
        }
        out
    }
}

impl Property for C01 {
    fn id(&self) -> &'static str {
        "C01"
    }
    fn rule(&self) -> String {
        "case = (SimNet loss/dup/reorder/delay config, one scenario): the victim dials id K and K's address leads to the real holder, to an iroh endpoint holding another key, to both (either order), or to a bare noq server with a forged identity; or a bare noq client with a forged identity dials an iroh endpoint. Forgeries: other key's raw public key, K's public key with a signature by another key, seeded garbage signatures of lengths 0..128, K's key plus an extra chain element (either order), X.509-typed opaque certificate, five tamperings of the SubjectPublicKeyInfo around K's key bytes, no certificate; each with an honest control that holds the secret key. non-trivial = any scenario with an impostor or forgery; distinct = distinct history hash".into()
    }
    fn assumptions(&self) -> Vec<String> {
        vec![
            "the adversary is limited to what a rustls/noq peer with custom certificate resolver, signer and verifiers can emit (no byte-level tampering inside encrypted handshake messages)".into(),
            "ring's TLS randomness is not seeded: handshake bytes differ between runs, sizes/order/control flow do not".into(),
            "the clause about the TLS name encoding (encode/decode shape) is a pure function of its input and is only exercised incidentally (every dial encodes the id and the verifier decodes it)".into(),
        ]
    }
    fn real_vs_stub(&self) -> Value {
        json!({"real": ["iroh::Endpoint connect/accept, Connection::remote_id (remote_id_from_noq_conn)", "iroh::tls::{TlsConfig, verifier::ServerCertificateVerifier, ClientCertificateVerifier, resolver, name}", "noq + rustls (ring) handshakes on both sides", "socket actor / RemoteMap / custom transport plumbing"], "stub": ["network (SimNet)", "address lookup (SimNet routes, incl. hijacked and competing addresses)", "the adversary (bare noq::Endpoint with hand-written rustls resolver/signer/verifiers)", "clock (tokio paused)", "DNS"]})
    }
    fn runs(&self, tier: Tier) -> u64 {
        match tier {
            Tier::Quick => 6_000,
            Tier::Thorough => 400_000,
        }
    }
    fn wall_cap_s(&self) -> u64 {
        120
    }
    fn generate(&self, seed: u64, tier: Tier) -> Value {
        fw::typed_generate(self, seed, tier)
    }
    fn execute(&self, case: &Value, ctx: &Ctx) {
        fw::typed_execute(self, case, ctx)
    }
    fn shrink(&self, case: &Value) -> Vec<Value> {
        fw::typed_shrink(self, case)
    }
}
