//! C25 — requested network re-probes are never silently dropped.
//!
//! A real `Endpoint` (socket actor, `DirectAddrUpdateState`, watchers, periodic re-probe timer) with
//! a one-entry relay map; the probing itself (`net_report::Client::get_report`) is replaced by a
//! scripted virtual-time duration (cfg-guarded seam) while the reporter lock is held exactly as in
//! the real run. Re-probe requests come from `Endpoint::network_change`, relay-map edits and the
//! periodic timer. The schedule point `direct_addr.run.after_done` (between the run task's done
//! signal and its end) lets the single-threaded executor take the interleavings a multi-threaded
//! runtime has.

use std::{
    sync::{Arc, Mutex},
    time::Duration,
};

use iroh::{Endpoint, RelayMode, endpoint::{PortmapperConfig, presets}};
use iroh_base::{RelayUrl, SecretKey};
use iroh_dns::dns::DnsResolver;
use serde::{Deserialize, Serialize};
use serde_json::{Value, json};

use crate::fw::{
    self, Ctx, Property, Rng, Tier, Typed,
    rt::{E1Hook, run_e1},
    simio::SimResolver,
    simnet::{NetCfg, SimNet},
};

#[derive(Clone, Debug, Serialize, Deserialize, PartialEq)]
pub enum Op {
    NetworkChange,
    InsertRelay(u8),
    RemoveRelay(u8),
}

#[derive(Clone, Debug, Serialize, Deserialize)]
pub struct Case {
    /// (gap in virtual ms before the op, op)
    pub ops: Vec<(u64, Op)>,
    /// scripted duration of the k-th probe run in virtual ms (last repeats); > 10 000 hits the report timeout
    pub probe_ms: Vec<u64>,
    /// yields the run task takes between its done signal and its end
    pub yields_after_done: u32,
    pub seed: u64,
}

pub struct C25;

fn relay(i: u8) -> RelayUrl {
    format!("https://relay{i}.sim.invalid./").parse().expect("relay url")
}

#[derive(Clone, Debug)]
struct Ev {
    site: String,
    data: String,
    at_ms: u64,
}

impl Typed for C25 {
    type Case = Case;

    fn gen_case(&self, rng: &mut Rng, _tier: Tier) -> Case {
        let n = rng.range(1, 6);
        let probe_ms: Vec<u64> = (0..rng.range(1, 4)).map(|_| rng.edgy(0, 4000, &[0, 1, 50, 500, 9_999, 10_000, 10_001, 15_000])).collect();
        let ops = (0..n)
            .map(|_| {
                // gaps cluster around the probe durations so that requests land inside runs and right at their end
                let base = *rng.pick(&probe_ms);
                let gap = match rng.below(5) {
                    0 => 0,
                    1 => rng.range(0, 50),
                    2 => base.min(12_000),
                    3 => base.min(12_000).saturating_sub(rng.range(0, 3)),
                    _ => rng.range(0, 6000),
                };
                let op = match rng.below(6) {
                    0 => Op::InsertRelay(rng.range(1, 2) as u8),
                    1 => Op::RemoveRelay(rng.range(1, 2) as u8),
                    _ => Op::NetworkChange,
                };
                (gap, op)
            })
            .collect();
        Case { ops, probe_ms, yields_after_done: *rng.pick(&[0u32, 0, 1, 2, 3, 5]), seed: rng.next_u64() }
    }

    fn exec_case(&self, case: &Case, ctx: &Ctx) {
        let case = case.clone();
        let ctx2 = ctx.clone();
        let hook = E1Hook::install(ctx, case.seed, &[("direct_addr.run.after_done", case.yields_after_done)]);
        let events: Arc<Mutex<Vec<Ev>>> = Default::default();
        let t0cell: Arc<Mutex<Option<tokio::time::Instant>>> = Default::default();
        {
            let ev = events.clone();
            let t0c = t0cell.clone();
            *hook.0.on_event.lock().unwrap() = Some(Box::new(move |site, data| {
                if site.starts_with("direct_addr.") {
                    let at_ms = t0c.lock().unwrap().map(|t| t.elapsed().as_millis() as u64).unwrap_or(0);
                    ev.lock().unwrap().push(Ev { site: site.to_string(), data: data.to_string(), at_ms });
                }
            }));
        }
        {
            let plan = case.probe_ms.clone();
            let calls = Mutex::new(0usize);
            *hook.0.stub.lock().unwrap() = Some(Box::new(move |site, _arg| {
                if site == "net_report.get_report" {
                    let mut c = calls.lock().unwrap();
                    let ms = plan[(*c).min(plan.len() - 1)];
                    *c += 1;
                    return Some(ms.to_string());
                }
                None
            }));
        }
        run_e1(case.seed, true, ctx, async move {
            let ctx = ctx2;
            *t0cell.lock().unwrap() = Some(tokio::time::Instant::now());
            let net = SimNet::new(case.seed, NetCfg::default());
            let ep = Endpoint::builder(presets::Minimal)
                .secret_key(SecretKey::from_bytes(&[0x25; 32]))
                .relay_mode(RelayMode::custom([relay(0)]))
                .clear_ip_transports()
                .portmapper_config(PortmapperConfig::Disabled)
                .dns_resolver(DnsResolver::custom(SimResolver::new(vec![], vec![], vec![])))
                .add_custom_transport(net.transport(0))
                .address_lookup(net.lookup())
                .bind()
                .await;
            let ep = match ep {
                Ok(e) => e,
                Err(e) => {
                    ctx.violate("harness-bind", format!("{e:#}"));
                    return;
                }
            };
            crate::fw::rt::settle_after_bind().await;
            for (i, (gap, op)) in case.ops.iter().enumerate() {
                tokio::time::sleep(Duration::from_millis(*gap)).await;
                ctx.ev(format!("op{i} {op:?}"));
                match op {
                    Op::NetworkChange => ep.network_change().await,
                    Op::InsertRelay(k) => {
                        let _ = ep.insert_relay(relay(*k), Arc::new(relay(*k).into())).await;
                    }
                    Op::RemoveRelay(k) => {
                        let _ = ep.remove_relay(&relay(*k)).await;
                    }
                }
            }
            // faults (requests) stopped: every run ends within the 10 s report timeout; the periodic timer
            // (20..26 s) keeps requesting, which the oracle treats like any other request
            tokio::time::sleep(Duration::from_secs(14)).await;
            let evs = events.lock().unwrap().clone();
            for e in &evs {
                ctx.ev(format!("{} {} t={}", e.site, e.data, e.at_ms));
            }
            // ---- oracle ----
            let mut running = false;
            // a request that arrived while a run was in progress and has not led to a start yet
            let mut owed: Option<(usize, u64)> = None; // (event index of the request, its time)
            let mut owed_since_finish: Option<u64> = None;
            let mut runs = 0u64;
            for (i, e) in evs.iter().enumerate() {
                // a start that is owed must happen "as soon as the run finishes": before virtual time moves on
                if let (Some((ri, rt)), Some(fin)) = (owed, owed_since_finish) {
                    if e.at_ms > fin && e.site != "direct_addr.run.start" {
                        ctx.violate(
                            "requested-reprobe-not-started-after-run-finished",
                            format!("the update requested at {rt} ms (event #{ri}) while a report was running was not started when that run finished at {fin} ms; next event: {} {} at {} ms", e.site, e.data, e.at_ms),
                        );
                        return;
                    }
                }
                match e.site.as_str() {
                    "direct_addr.run.start" => {
                        if running {
                            ctx.violate("two-network-reports-running", format!("a report was started at {} ms while another one was still running (event #{i})", e.at_ms));
                            return;
                        }
                        running = true;
                        runs += 1;
                        owed = None;
                        owed_since_finish = None;
                    }
                    "direct_addr.run.finish" => {
                        if !running {
                            ctx.violate("harness-event-order", format!("finish without start at event #{i}"));
                            return;
                        }
                        running = false;
                        if owed.is_some() {
                            owed_since_finish = Some(e.at_ms);
                        }
                    }
                    "direct_addr.request" => {
                        if e.data.ends_with("queued") {
                            ctx.count("probe.request_while_running");
                            if owed.is_none() {
                                owed = Some((i, e.at_ms));
                            }
                            if !running {
                                // queued although nothing runs: only possible in the window between done signal and task end
                                ctx.count("probe.request_queued_in_finish_window");
                            }
                        }
                    }
                    "direct_addr.try_run" => {
                        ctx.count("probe.try_run_found_lock_taken");
                    }
                    _ => {}
                }
            }
            if let (Some((ri, rt)), Some(fin)) = (owed, owed_since_finish) {
                let now = t0cell.lock().unwrap().unwrap().elapsed().as_millis() as u64;
                if now > fin {
                    ctx.violate(
                        "requested-reprobe-not-started-after-run-finished",
                        format!("the update requested at {rt} ms (event #{ri}) while a report was running was never started although that run finished at {fin} ms (now {now} ms)"),
                    );
                    return;
                }
            }
            ctx.add("probe.report_runs", runs);
            if evs.iter().any(|e| e.site == "direct_addr.request" && e.data.ends_with("queued")) {
                ctx.nontrivial();
            }
            let _ = tokio::time::timeout(Duration::from_secs(30), ep.close()).await;
        });
        drop(hook);
    }

    fn shrink_case(&self, case: &Case) -> Vec<Case> {
        let mut out = vec![];
        for ops in fw::shrink_vec(&case.ops) {
            if ops.is_empty() {
                continue;
            }
            let mut c = case.clone();
            c.ops = ops;
            out.push(c);
        }
        if case.probe_ms.len() > 1 {
            let mut c = case.clone();
            c.probe_ms.truncate(1);
            out.push(c);
        }
        if case.yields_after_done > 1 {
            let mut c = case.clone();
            c.yields_after_done = 1;
            out.push(c);
        }
        out
    }
}

impl Property for C25 {
    fn id(&self) -> &'static str {
        "C25"
    }
    fn rule(&self) -> String {
        "case = (1..6 re-probe requests: Endpoint::network_change, relay-map insert/remove, with gaps clustered around the scripted probe durations incl. 0 and the exact end of a run; 1..4 scripted probe durations from 0 ms to beyond the 10 s report timeout; 0..5 yields of the run task between its done signal and its end); the periodic re-probe timer of the real actor keeps firing; oracle over the start/finish/request event log; non-trivial = at least one request arrived while a report was running; distinct = distinct history hash".into()
    }
    fn assumptions(&self) -> Vec<String> {
        vec![
            "the probing itself (net_report::Client::get_report) is replaced by a scripted virtual-time sleep behind a cfg(iroh_verif) seam; the reporter lock, the done signal, the actor's reaction and all request sources are real".into(),
            "multi-threaded interleavings of the finishing run task and the socket actor are represented by yields at the schedule point direct_addr.run.after_done on the single-threaded executor".into(),
            "'as soon as that run finishes' is read as: before virtual time advances past the instant the reporter lock was released".into(),
        ]
    }
    fn real_vs_stub(&self) -> Value {
        json!({"real": ["iroh::Endpoint + socket actor (Actor::run select loop, periodic re-probe timer, network-change and relay-map-change handling)", "DirectAddrUpdateState::{schedule_run, try_run, run}", "the spawned run task (timeout, cancellation, done signal, lock release)"], "stub": ["net_report::Client::get_report (scripted duration)", "network (SimNet), DNS (failing SimResolver), portmapper (disabled), clock (tokio paused)"]})
    }
    fn runs(&self, tier: Tier) -> u64 {
        match tier {
            Tier::Quick => 6_000,
            Tier::Thorough => 400_000,
        }
    }
    fn wall_cap_s(&self) -> u64 {
        120
    }
    fn generate(&self, seed: u64, tier: Tier) -> Value {
        fw::typed_generate(self, seed, tier)
    }
    fn execute(&self, case: &Value, ctx: &Ctx) {
        fw::typed_execute(self, case, ctx)
    }
    fn shrink(&self, case: &Value) -> Vec<Value> {
        fw::typed_shrink(self, case)
    }
}
