//! C35 — Dual-stack host resolution yields all addresses, errs only if both fail.
//!
//! Subject: public `DnsResolver::resolve_host_all` (real stream state machine, real `op` with
//! per-lookup timeout and reset-restart) over a scripted `SimResolver` on the virtual clock.
//! Faults: lookup errors, never-answering lookups (timeout path), resolver `reset()` while lookups
//! are in flight (network change), slow consumer.

use std::{net::IpAddr, time::Duration};

use iroh_dns::dns::{DnsError, DnsResolver};
use n0_future::StreamExt;
use serde::{Deserialize, Serialize};
use serde_json::{Value, json};

use crate::fw::{
    self, Ctx, Property, Rng, Tier, Typed,
    rt::run_e1,
    simio::{Fam, LookupPlan, LookupResult, SimResolver, v4_addr, v6_addr},
};

pub struct C35;

#[derive(Clone, Debug, Serialize, Deserialize)]
pub struct Case {
    /// 0 domain, 1 ipv4 literal, 2 ipv6 literal, 3 host-less URL
    pub host_kind: u8,
    pub timeout_ms: u64,
    pub v4: Vec<LookupPlan>,
    pub v6: Vec<LookupPlan>,
    /// virtual times at which `DnsResolver::reset()` is called
    pub resets_ms: Vec<u64>,
    /// consumer waits this long before each `next()` (0 = eager)
    pub consumer_gap_ms: Vec<u64>,
    pub seed: u64,
}

fn gen_plans(rng: &mut Rng, n: usize, timeout_ms: u64) -> Vec<LookupPlan> {
    (0..n)
        .map(|_| {
            let result = match rng.below(10) {
                0..=4 => LookupResult::Ok(rng.range(0, 4) as u8),
                5..=7 => LookupResult::Err,
                _ => LookupResult::Hang,
            };
            let delay_ms = match rng.below(3) {
                0 => 0,
                1 => rng.range(0, timeout_ms),
                _ => rng.edgy(0, 2 * timeout_ms, &[timeout_ms.saturating_sub(1), timeout_ms, timeout_ms + 1]),
            };
            LookupPlan { delay_ms, result }
        })
        .collect()
}

/// Model of one family, derived from the observed resolver call log: a later call means the
/// earlier one was abandoned by a reset-restart; the last call completes per its plan.
/// Returns (completion time, Some(call idx, n) on success | None on failure, number of calls).
fn family_model(plans: &[LookupPlan], timeout_ms: u64, starts: &[u64]) -> (u64, Option<(usize, u8)>, usize) {
    let k = starts.len() - 1;
    let start = starts[k];
    let plan = &plans[k.min(plans.len() - 1)];
    let (done, ok) = match plan.result {
        LookupResult::Ok(n) if plan.delay_ms <= timeout_ms => (start + plan.delay_ms, Some(n)),
        LookupResult::Err if plan.delay_ms <= timeout_ms => (start + plan.delay_ms, None),
        _ => (start + timeout_ms, None),
    };
    (done, ok.map(|n| (k, n)), k + 1)
}

impl Typed for C35 {
    type Case = Case;

    fn gen_case(&self, rng: &mut Rng, _tier: Tier) -> Case {
        let host_kind = if rng.chance(1, 8) { rng.range(1, 3) as u8 } else { 0 };
        let timeout_ms = *rng.pick(&[1u64, 10, 100, 1000, 3000]);
        let n_resets = if rng.chance(1, 3) { rng.range(1, 3) as usize } else { 0 };
        let resets_ms: Vec<u64> = (0..n_resets).map(|_| rng.range(1, 2 * timeout_ms + 1)).collect();
        let v4 = gen_plans(rng, n_resets + 1, timeout_ms);
        let v6 = gen_plans(rng, n_resets + 1, timeout_ms);
        let eager = rng.chance(2, 3);
        let consumer_gap_ms = (0..12)
            .map(|_| if eager { 0 } else { rng.range(0, timeout_ms) })
            .collect();
        Case {
            host_kind,
            timeout_ms,
            v4,
            v6,
            resets_ms,
            consumer_gap_ms,
            seed: rng.next_u64(),
        }
    }

    fn exec_case(&self, case: &Case, ctx: &Ctx) {
        let case = case.clone();
        let ctx2 = ctx.clone();
        run_e1(case.seed, false, ctx, async move {
            let ctx = ctx2;
            let sim = SimResolver::new(case.v4.clone(), case.v6.clone(), vec![]);
            let state = sim.state.clone();
            let resolver = DnsResolver::custom(sim);
            let url: url::Url = match case.host_kind {
                0 => "https://relay.example./x".parse().unwrap(),
                1 => "https://192.0.2.7:8443/x".parse().unwrap(),
                2 => "https://[2001:db8::7]:8443/x".parse().unwrap(),
                _ => "data:text/plain,hello".parse().unwrap(),
            };
            let t0 = tokio::time::Instant::now();
            // reset task (fault injector)
            let r2 = resolver.clone();
            let mut resets = case.resets_ms.clone();
            resets.sort();
            let ctx3 = ctx.clone();
            let reset_task = tokio::task::spawn_local(async move {
                for t in resets {
                    tokio::time::sleep_until(t0 + Duration::from_millis(t)).await;
                    r2.reset();
                    ctx3.count("fault.resolver_reset");
                }
            });
            let mut yielded: Vec<(u64, Result<IpAddr, String>)> = vec![];
            {
                let stream = resolver.resolve_host_all(&url, Duration::from_millis(case.timeout_ms));
                tokio::pin!(stream);
                let mut i = 0;
                loop {
                    let gap = case.consumer_gap_ms.get(i).copied().unwrap_or(0);
                    if gap > 0 {
                        tokio::time::sleep(Duration::from_millis(gap)).await;
                    }
                    i += 1;
                    let item = tokio::time::timeout(Duration::from_secs(600), stream.next()).await;
                    let t = t0.elapsed().as_millis() as u64;
                    match item {
                        Err(_) => {
                            ctx.violate("stream-never-ends", format!("no item and no end by {t} ms"));
                            return;
                        }
                        Ok(None) => {
                            ctx.ev(format!("end t={t}"));
                            break;
                        }
                        Ok(Some(Ok(ip))) => {
                            ctx.ev(format!("item t={t} {ip}"));
                            yielded.push((t, Ok(ip)));
                        }
                        Ok(Some(Err(e))) => {
                            let kind = match &e {
                                DnsError::ResolveBoth { .. } => "ResolveBoth",
                                DnsError::NoResponse { .. } => "NoResponse",
                                DnsError::MissingHost { .. } => "MissingHost",
                                DnsError::Timeout { .. } => "Timeout",
                                _ => "Other",
                            };
                            ctx.ev(format!("error t={t} {kind}"));
                            yielded.push((t, Err(kind.to_string())));
                        }
                    }
                    if yielded.len() > 64 {
                        ctx.violate("stream-unbounded", "more than 64 items".to_string());
                        return;
                    }
                }
            }
            reset_task.abort();
            let calls = state.lock().unwrap().calls.clone();
            // ---- oracle ----
            let items: Vec<IpAddr> = yielded.iter().filter_map(|(_, r)| r.clone().ok()).collect();
            let errors: Vec<String> = yielded.iter().filter_map(|(_, r)| r.clone().err()).collect();
            // errors only as the last element
            if let Some(pos) = yielded.iter().position(|(_, r)| r.is_err()) {
                if pos != yielded.len() - 1 {
                    ctx.violate("item-after-error", format!("{yielded:?}"));
                    return;
                }
            }
            match case.host_kind {
                1 | 2 => {
                    let want: IpAddr = if case.host_kind == 1 {
                        "192.0.2.7".parse().unwrap()
                    } else {
                        "2001:db8::7".parse().unwrap()
                    };
                    if items != vec![want] || !errors.is_empty() || !calls.is_empty() {
                        ctx.violate("ip-literal-not-yielded-directly", format!("{yielded:?} calls={}", calls.len()));
                    }
                    return;
                }
                3 => {
                    if !items.is_empty() || errors != vec!["MissingHost".to_string()] {
                        ctx.violate("missing-host-not-reported", format!("{yielded:?}"));
                    }
                    return;
                }
                _ => {}
            }
            let t_first_poll = case.consumer_gap_ms.first().copied().unwrap_or(0);
            let s4: Vec<u64> = calls.iter().filter(|c| c.fam == Fam::V4).map(|c| c.start_ms).collect();
            let s6: Vec<u64> = calls.iter().filter(|c| c.fam == Fam::V6).map(|c| c.start_ms).collect();
            // (The statement does not require the two lookups to start at the same poll: the biased
            // select starts the IPv6 lookup one poll later when IPv4 answers immediately.)
            if s4.is_empty() || s6.is_empty() || s4[0] < t_first_poll || s6[0] < t_first_poll {
                ctx.violate(
                    "lookup-not-started",
                    format!("first poll at {t_first_poll} ms, v4 starts {s4:?} v6 starts {s6:?}"),
                );
                return;
            }
            if s4[0] != s6[0] {
                ctx.count("probe.v6_started_later_than_v4");
            }
            // restarts only ever happen at or after reset instants (harness sanity, not the property)
            for s in s4.iter().skip(1).chain(s6.iter().skip(1)) {
                if !case.resets_ms.iter().any(|r| r <= s) {
                    ctx.violate("restart-without-reset", format!("v4 starts {s4:?} v6 starts {s6:?} resets {:?}", case.resets_ms));
                    return;
                }
            }
            let eager = case.consumer_gap_ms.iter().all(|g| *g == 0);
            // Possible outcomes per family. With an eager consumer the outcome is definite. A slow
            // consumer polls the lookup (and its timeout) only when it polls the stream, so a lookup
            // that answers after its timeout but before the next poll may legitimately still be used:
            // both outcomes are accepted.
            let fam_outcomes = |plans: &[LookupPlan], starts: &[u64]| -> Vec<(u64, Option<(usize, u8)>)> {
                let (d, ok, _) = family_model(plans, case.timeout_ms, starts);
                let mut v = vec![(d, ok)];
                if !eager {
                    let k = starts.len() - 1;
                    let plan = &plans[k.min(plans.len() - 1)];
                    if plan.delay_ms > case.timeout_ms {
                        match plan.result {
                            LookupResult::Ok(n) => v.push((starts[k] + plan.delay_ms, Some((k, n)))),
                            LookupResult::Err => v.push((starts[k] + plan.delay_ms, None)),
                            LookupResult::Hang => {}
                        }
                    }
                }
                v
            };
            let o4 = fam_outcomes(&case.v4, &s4);
            let o6 = fam_outcomes(&case.v6, &s6);
            let check = |d4: u64, ok4: Option<(usize, u8)>, d6: u64, ok6: Option<(usize, u8)>| -> Option<(&'static str, String)> {
                let mut want: Vec<(IpAddr, u64)> = vec![];
                if let Some((k, n)) = ok4 {
                    for j in 0..n {
                        want.push((v4_addr(k, j).into(), d4));
                    }
                }
                if let Some((k, n)) = ok6 {
                    for j in 0..n {
                        want.push((v6_addr(k, j).into(), d6));
                    }
                }
                let mut got_sorted = items.clone();
                got_sorted.sort();
                let mut want_sorted: Vec<IpAddr> = want.iter().map(|w| w.0).collect();
                want_sorted.sort();
                if got_sorted != want_sorted {
                    return Some((
                        "yielded-set-differs-from-lookup-results",
                        format!("yielded {items:?}, lookups returned {want_sorted:?}"),
                    ));
                }
                for (t, r) in &yielded {
                    if let Ok(ip) = r {
                        let done = want.iter().find(|w| w.0 == *ip).unwrap().1;
                        if *t + 1 < done {
                            return Some(("item-before-lookup-completed", format!("{ip} at {t} ms, lookup done {done} ms")));
                        }
                        if eager && *t > done + 1 {
                            return Some((
                                "item-not-yielded-as-lookup-completes",
                                format!("{ip} at {t} ms, its lookup completed at {done} ms (eager consumer)"),
                            ));
                        }
                    }
                }
                let both_failed = ok4.is_none() && ok6.is_none();
                let want_err: Option<&str> = if both_failed {
                    Some("ResolveBoth")
                } else if want.is_empty() {
                    Some("NoResponse")
                } else {
                    None
                };
                match (want_err, errors.first()) {
                    (None, None) => {}
                    (Some(w), Some(g)) if w == g => {}
                    (w, g) => {
                        return Some((
                            "wrong-terminal",
                            format!("expected terminal {w:?}, got {g:?} (v4 ok {ok4:?} v6 ok {ok6:?})"),
                        ));
                    }
                }
                if eager {
                    if let Some((t, Err(_))) = yielded.last() {
                        let both_done = d4.max(d6);
                        if *t > both_done + 1 || *t + 1 < both_done {
                            return Some(("terminal-error-time", format!("error at {t} ms, lookups done at {both_done}")));
                        }
                    }
                }
                None
            };
            let mut first_fail = None;
            let mut passed = false;
            for (d4, ok4) in &o4 {
                for (d6, ok6) in &o6 {
                    match check(*d4, *ok4, *d6, *ok6) {
                        None => passed = true,
                        Some(f) => {
                            if first_fail.is_none() {
                                first_fail = Some(f)
                            }
                        }
                    }
                }
            }
            if !passed {
                let (c, d) = first_fail.unwrap();
                ctx.violate(c, d);
                return;
            }
            if o4.len() > 1 || o6.len() > 1 {
                ctx.count("probe.ambiguous_timeout_slow_consumer");
            }
            let (d4, ok4) = o4[0];
            let (d6, ok6) = o6[0];
            let both_failed = ok4.is_none() && ok6.is_none();
            if ok4.is_some() != ok6.is_some() || (d4 != d6 && !items.is_empty()) {
                ctx.nontrivial();
            }
            if both_failed {
                ctx.count("probe.both_failed");
                ctx.nontrivial();
            }
            if s4.len() > 1 || s6.len() > 1 {
                ctx.count("probe.restarted_by_reset");
            }
            if items.is_empty() && !both_failed {
                ctx.count("probe.no_response");
            }
        });
    }

    fn shrink_case(&self, case: &Case) -> Vec<Case> {
        let mut out = vec![];
        for r in fw::shrink_vec(&case.resets_ms) {
            let mut c = case.clone();
            c.resets_ms = r;
            out.push(c);
        }
        if case.consumer_gap_ms.iter().any(|g| *g != 0) {
            let mut c = case.clone();
            c.consumer_gap_ms = vec![0; 12];
            out.push(c);
        }
        for (fam, plans) in [(0, &case.v4), (1, &case.v6)] {
            for (i, p) in plans.iter().enumerate() {
                if p.delay_ms != 0 {
                    let mut c = case.clone();
                    if fam == 0 { c.v4[i].delay_ms = 0 } else { c.v6[i].delay_ms = 0 };
                    out.push(c);
                }
                if let LookupResult::Ok(n) = p.result {
                    if n > 1 {
                        let mut c = case.clone();
                        if fam == 0 { c.v4[i].result = LookupResult::Ok(1) } else { c.v6[i].result = LookupResult::Ok(1) };
                        out.push(c);
                    }
                }
            }
        }
        out
    }
}

impl Property for C35 {
    fn id(&self) -> &'static str {
        "C35"
    }
    fn rule(&self) -> String {
        "case = (URL host kind, per-lookup timeout, per-family scripted outcome Ok(0..4 addrs)/Err/Hang after a delay straddling the timeout, 0..3 resolver resets at seeded instants, eager or slow consumer); non-trivial = the two families completed at different times or with different success, or both failed; distinct = distinct history hash (yield times, items, terminal)".into()
    }
    fn assumptions(&self) -> Vec<String> {
        vec![
            "tokio paused clock is the only clock read".into(),
            "runs where the harness's model of restart-on-reset disagrees with the observed number of resolver calls are skipped and counted (probe.model_call_count_mismatch)".into(),
        ]
    }
    fn real_vs_stub(&self) -> Value {
        json!({"real": ["DnsResolver::resolve_host_all stream", "Inner::op (timeout, reset restart)", "DnsResolver::reset"], "stub": ["DNS servers (SimResolver)", "clock", "entropy"]})
    }
    fn runs(&self, tier: Tier) -> u64 {
        match tier {
            Tier::Quick => 40_000,
            Tier::Thorough => 3_000_000,
        }
    }
    fn generate(&self, seed: u64, tier: Tier) -> Value {
        fw::typed_generate(self, seed, tier)
    }
    fn execute(&self, case: &Value, ctx: &Ctx) {
        fw::typed_execute(self, case, ctx)
    }
    fn shrink(&self, case: &Value) -> Vec<Value> {
        fw::typed_shrink(self, case)
    }
}
