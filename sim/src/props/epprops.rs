//! Endpoint-level properties over real `iroh::Endpoint`s (real noq QUIC, real rustls, real socket
//! actor, real Router) connected through `SimNet` custom transports on the virtual clock:
//! C40 (router dispatch), C41 (router shutdown), C42 (hooks and connect preconditions).

use std::{
    sync::{Arc, Mutex},
    time::Duration,
};

use iroh::{
    Endpoint, RelayMode,
    endpoint::{
        AfterHandshakeOutcome, BeforeConnectOutcome, ConnectOptions, Connection, EndpointHooks, Incoming, VarInt, presets,
    },
    protocol::{AcceptError, IncomingFilterOutcome, ProtocolHandler, Router},
};
use iroh_base::{EndpointAddr, SecretKey};
use iroh_dns::dns::DnsResolver;
use serde::{Deserialize, Serialize};
use serde_json::{Value, json};

use crate::fw::{
    self, Ctx, Property, Rng, Tier, Typed,
    rt::{run_e1, yields},
    simio::SimResolver,
    simnet::{NetCfg, SimNet},
};

pub fn secret(k: u8) -> SecretKey {
    SecretKey::from_bytes(&[0x10 + k; 32])
}

pub async fn make_ep(net: &SimNet, slot: u8, key: u8, hooks: Option<SimHooks>) -> Result<Endpoint, String> {
    let mut b = Endpoint::builder(presets::Minimal)
        .secret_key(secret(key))
        .relay_mode(RelayMode::Disabled)
        .clear_ip_transports()
        .portmapper_config(iroh::endpoint::PortmapperConfig::Disabled)
        .dns_resolver(DnsResolver::custom(SimResolver::new(vec![], vec![], vec![])))
        .add_custom_transport(net.transport(slot))
        .address_lookup(net.lookup());
    if let Some(h) = hooks {
        b = b.hooks(h);
    }
    net.route(secret(key).public(), slot);
    let ep = b.bind().await.map_err(|e| format!("bind failed: {e:#}"))?;
    crate::fw::rt::settle_after_bind().await;
    Ok(ep)
}

fn gen_net(rng: &mut Rng) -> NetCfg {
    if rng.chance(1, 3) {
        NetCfg::default()
    } else {
        NetCfg {
            drop_pm: *rng.pick(&[0u32, 0, 20, 100, 250]),
            dup_pm: *rng.pick(&[0u32, 0, 50, 200]),
            reorder_pm: *rng.pick(&[0u32, 0, 100, 300]),
            delay_max_ms: *rng.pick(&[0u64, 1, 5, 40, 150]),
            ..Default::default()
        }
    }
}

/// Protocol names: 0, 1 plain; 2 is not valid UTF-8; 3 is the lossy UTF-8 rendering of 2; 4 has
/// name 1 as a proper prefix; 5 and 6 (plain / binary) are never registered.
fn show(a: &[u8]) -> String {
    a.escape_ascii().to_string()
}

fn alpn(i: u8) -> Vec<u8> {
    match i {
        2 => b"sim/bin/\xff\x01".to_vec(),
        3 => String::from_utf8_lossy(b"sim/bin/\xff\x01").into_owned().into_bytes(),
        4 => b"sim/proto/10".to_vec(),
        6 => b"sim/bin/\xff\x02".to_vec(),
        i => format!("sim/proto/{i}").into_bytes(),
    }
}

// =========================================================================================
// C40

#[derive(Clone, Debug, Serialize, Deserialize, PartialEq)]
pub enum Verdict {
    Accept,
    Reject,
    Ignore,
    /// Retry unless the address is already validated, then accept
    RetryOnce,
    RetryAlways,
}

#[derive(Clone, Debug, Serialize, Deserialize)]
pub struct Dial {
    pub client: u8,
    /// first offered ALPN and additional ones (indices; >= 5 are never registered)
    pub alpns: Vec<u8>,
    pub gap_ms: u64,
}

#[derive(Clone, Debug, Serialize, Deserialize)]
pub struct C40Case {
    pub net: NetCfg,
    pub registered: Vec<u8>,
    /// verdict for the k-th incoming seen by the filter (last repeats); None = no filter
    pub filter: Option<Vec<Verdict>>,
    pub dials: Vec<Dial>,
    /// dials overlap (each starts `gap_ms` after the previous one started) instead of running one after the other
    #[serde(default)]
    pub concurrent: bool,
    pub seed: u64,
}

#[derive(Debug, Clone)]
struct RecHandler {
    alpn_idx: u8,
    log: Arc<Mutex<Vec<(u8, Vec<u8>, u32)>>>, // (handler's alpn idx, negotiated alpn, tag)
}

impl ProtocolHandler for RecHandler {
    async fn accept(&self, conn: Connection) -> Result<(), AcceptError> {
        let negotiated = conn.alpn().to_vec();
        // the dialer identifies its dial with a 4-byte tag on a uni stream
        let tag = match tokio::time::timeout(Duration::from_secs(20), conn.accept_uni()).await {
            Ok(Ok(mut s)) => {
                let mut b = [0u8; 4];
                match s.read_exact(&mut b).await {
                    Ok(()) => u32::from_le_bytes(b),
                    Err(_) => u32::MAX,
                }
            }
            _ => u32::MAX,
        };
        self.log.lock().unwrap().push((self.alpn_idx, negotiated, tag));
        conn.close(0u32.into(), b"done");
        Ok(())
    }
}

pub struct C40;

impl Typed for C40 {
    type Case = C40Case;

    fn gen_case(&self, rng: &mut Rng, _tier: Tier) -> C40Case {
        let n_reg = rng.range(1, 4) as usize;
        let mut registered: Vec<u8> = (0..5u8).collect();
        rng.shuffle(&mut registered);
        registered.truncate(n_reg);
        let filter = if rng.coin() {
            Some(
                (0..rng.range(1, 4))
                    .map(|_| match rng.below(7) {
                        0..=2 => Verdict::Accept,
                        3 => Verdict::Reject,
                        4 => Verdict::Ignore,
                        5 => Verdict::RetryOnce,
                        _ => Verdict::RetryAlways,
                    })
                    .collect(),
            )
        } else {
            None
        };
        let dials = (0..rng.range(1, 4))
            .map(|_| Dial {
                client: rng.range(0, 1) as u8,
                alpns: (0..rng.range(1, 3)).map(|_| rng.range(0, 6) as u8).collect(),
                gap_ms: rng.range(0, 50),
            })
            .collect();
        C40Case { net: gen_net(rng), registered, filter, dials, concurrent: rng.coin(), seed: rng.next_u64() }
    }

    fn exec_case(&self, case: &C40Case, ctx: &Ctx) {
        let case = case.clone();
        let ctx2 = ctx.clone();
        run_e1(case.seed, true, ctx, async move {
            let ctx = ctx2;
            let net = SimNet::new(case.seed, case.net.clone());
            let server = match make_ep(&net, 0, 0, None).await {
                Ok(e) => e,
                Err(e) => {
                    ctx.violate("harness-bind", e);
                    return;
                }
            };
            let log: Arc<Mutex<Vec<(u8, Vec<u8>, u32)>>> = Default::default();
            let mut rb = Router::builder(server.clone());
            for a in &case.registered {
                rb = rb.accept(alpn(*a), RecHandler { alpn_idx: *a, log: log.clone() });
            }
            // filter decisions: (incoming idx, verdict, validated)
            let filter_log: Arc<Mutex<Vec<(Verdict, bool)>>> = Default::default();
            if let Some(plan) = case.filter.clone() {
                let fl = filter_log.clone();
                rb = rb.incoming_filter(Arc::new(move |inc: &Incoming| {
                    let mut g = fl.lock().unwrap();
                    let k = g.len();
                    let v = plan[k.min(plan.len() - 1)].clone();
                    let validated = inc.remote_addr_validated();
                    g.push((v.clone(), validated));
                    match v {
                        Verdict::Accept => IncomingFilterOutcome::Accept,
                        Verdict::Reject => IncomingFilterOutcome::Reject,
                        Verdict::Ignore => IncomingFilterOutcome::Ignore,
                        Verdict::RetryOnce => {
                            if validated { IncomingFilterOutcome::Accept } else { IncomingFilterOutcome::Retry }
                        }
                        Verdict::RetryAlways => IncomingFilterOutcome::Retry,
                    }
                }));
            }
            let router = rb.spawn();
            let mut clients = vec![];
            for c in 0..2u8 {
                match make_ep(&net, 1 + c, 1 + c, None).await {
                    Ok(e) => clients.push(e),
                    Err(e) => {
                        ctx.violate("harness-bind", e);
                        return;
                    }
                }
            }
            // results per dial: Ok(negotiated alpn) | Err(kind)
            let results_cell: Arc<Mutex<Vec<Option<Result<Vec<u8>, String>>>>> = Arc::new(Mutex::new(vec![None; case.dials.len()]));
            let mut dial_tasks = vec![];
            for (i, d) in case.dials.iter().enumerate() {
                tokio::time::sleep(Duration::from_millis(d.gap_ms)).await;
                let ep = clients[d.client as usize].clone();
                let first = alpn(d.alpns[0]);
                let extra: Vec<Vec<u8>> = d.alpns[1..].iter().map(|a| alpn(*a)).collect();
                let opts = ConnectOptions::new().with_additional_alpns(extra);
                ctx.ev(format!("dial {i} client{} alpns={:?}", d.client, d.alpns));
                let ctx3 = ctx.clone();
                let cell = results_cell.clone();
                let whole = async move {
                    let fut = async {
                        let connecting = ep.connect_with_opts(EndpointAddr::new(secret(0).public()), &first, opts).await.map_err(|e| format!("connect: {e:#}"))?;
                        let conn = connecting.await.map_err(|e| format!("handshake: {e:#}"))?;
                        let negotiated = conn.alpn().to_vec();
                        let mut s = conn.open_uni().await.map_err(|e| format!("open_uni: {e:#}"))?;
                        s.write_all(&(i as u32).to_le_bytes()).await.map_err(|e| format!("write: {e:#}"))?;
                        s.finish().map_err(|e| format!("finish: {e:#}"))?;
                        // wait for the server's handler to close the connection (or a bounded time)
                        let _ = tokio::time::timeout(Duration::from_secs(25), conn.closed()).await;
                        Ok::<Vec<u8>, String>(negotiated)
                    };
                    let r = match tokio::time::timeout(Duration::from_secs(40), fut).await {
                        Ok(r) => r,
                        Err(_) => Err("timeout".to_string()),
                    };
                    let _ = &ctx3;
                    cell.lock().unwrap()[i] = Some(r);
                };
                if case.concurrent {
                    dial_tasks.push(tokio::task::spawn_local(whole));
                } else {
                    whole.await;
                }
            }
            for t in dial_tasks {
                let _ = tokio::time::timeout(Duration::from_secs(60), t).await;
            }
            let results: Vec<Result<Vec<u8>, String>> = results_cell.lock().unwrap().iter().map(|r| r.clone().unwrap_or(Err("timeout".to_string()))).collect();
            // recorded in dial order, not completion order (see DESIGN 9.6)
            for (i, r) in results.iter().enumerate() {
                ctx.ev(format!("dial {i} -> {}", match r { Ok(a) => format!("established alpn={}", show(a)), Err(e) => format!("failed ({})", e.split(':').next().unwrap_or("")) }));
            }
            net.stop_faults();
            tokio::time::sleep(Duration::from_secs(30)).await;
            yields(8).await;
            // ---- oracle ----
            let mut invocations = log.lock().unwrap().clone();
            invocations.sort_by_key(|x| (x.2, x.0));
            let flog = filter_log.lock().unwrap().clone();
            for (h, negotiated, tag) in &invocations {
                ctx.ev(format!("handler proto{h} invoked negotiated={} tag={tag}", show(negotiated)));
                if *negotiated != alpn(*h) {
                    ctx.violate("connection-reached-handler-of-other-protocol", format!("handler for {} got a connection negotiated as {}", show(&alpn(*h)), show(negotiated)));
                    return;
                }
            }
            for (i, d) in case.dials.iter().enumerate() {
                let mine: Vec<&(u8, Vec<u8>, u32)> = invocations.iter().filter(|x| x.2 == i as u32).collect();
                let offered_registered: Vec<u8> = d.alpns.iter().copied().filter(|a| case.registered.contains(a)).collect();
                match &results[i] {
                    Ok(negotiated) => {
                        if !d.alpns.iter().any(|a| alpn(*a) == *negotiated) || !case.registered.iter().any(|a| alpn(*a) == *negotiated) {
                            ctx.violate("negotiated-protocol-not-offered-or-not-registered", format!("dial {i} offered {:?}, registered {:?}, negotiated {}", d.alpns, case.registered, show(negotiated)));
                            return;
                        }
                        // The dialer can consider the handshake complete (and later give up) while its last
                        // handshake flight is still being lost: under packet loss a connection that is
                        // established on the dialer's side may never have existed on the router's side.
                        if mine.is_empty() && case.net.drop_pm > 0 {
                            ctx.count("probe.dialer_side_only_connection_under_loss");
                        } else if mine.len() != 1 {
                            ctx.violate(
                                if mine.is_empty() { "established-connection-reached-no-handler" } else { "connection-handled-more-than-once" },
                                format!("dial {i} established with {}: handler invocations {mine:?}", show(negotiated)),
                            );
                            return;
                        }
                        if mine.first().is_some_and(|m| m.1 != *negotiated) {
                            ctx.violate("handler-saw-different-protocol-than-dialer", format!("dial {i}"));
                            return;
                        }
                    }
                    Err(_) => {
                        if !mine.is_empty() && offered_registered.is_empty() {
                            ctx.violate("unregistered-protocol-reached-a-handler", format!("dial {i} offered only unregistered protocols {:?} but handler invocations {mine:?}", d.alpns));
                            return;
                        }
                    }
                }
                if offered_registered.is_empty() && results[i].is_ok() {
                    ctx.violate("unregistered-protocol-established", format!("dial {i} offered {:?}, registered {:?}", d.alpns, case.registered));
                    return;
                }
            }
            // filter: a handler invocation needs an accepting verdict; with a filter that never
            // accepts, no handler may run at all
            if case.filter.is_some() {
                let accepts = flog.iter().filter(|(v, validated)| matches!(v, Verdict::Accept) || (matches!(v, Verdict::RetryOnce) && *validated)).count();
                if invocations.len() > accepts {
                    ctx.violate(
                        "handler-invoked-without-filter-acceptance",
                        format!("{} handler invocations but the filter accepted only {accepts} incomings (decisions {flog:?})", invocations.len()),
                    );
                    return;
                }
                // a Retry verdict must lead to a *validated* incoming before acceptance
                if flog.iter().any(|(v, _)| matches!(v, Verdict::RetryOnce | Verdict::RetryAlways)) {
                    ctx.count("probe.retry_verdicts");
                }
                if flog.iter().any(|(v, val)| matches!(v, Verdict::RetryOnce) && *val) {
                    ctx.count("probe.validated_retry_accepted");
                }
            }
            // liveness without faults: a dial offering a registered protocol through an accepting filter succeeds
            let lossless = case.net.drop_pm == 0;
            if lossless && case.filter.is_none() {
                for (i, d) in case.dials.iter().enumerate() {
                    if d.alpns.iter().any(|a| case.registered.contains(a)) && results[i].is_err() {
                        ctx.violate("registered-protocol-dial-failed-without-faults", format!("dial {i} offered {:?} registered {:?}: {:?}", d.alpns, case.registered, results[i]));
                        return;
                    }
                }
            }
            ctx.add("probe.handler_invocations", invocations.len() as u64);
            ctx.add("fault.packets_dropped", net.log().iter().filter(|p| p.fate == "dropped").count() as u64);
            ctx.add("fault.packets_duplicated", net.log().iter().filter(|p| p.fate == "duplicated").count() as u64);
            if !invocations.is_empty() && case.dials.len() >= 2 {
                ctx.nontrivial();
            }
            let _ = tokio::time::timeout(Duration::from_secs(30), router.shutdown()).await;
            for c in clients {
                let _ = tokio::time::timeout(Duration::from_secs(30), c.close()).await;
            }
        });
    }

    fn shrink_case(&self, case: &C40Case) -> Vec<C40Case> {
        let mut out = vec![];
        for d in fw::shrink_vec(&case.dials) {
            if d.is_empty() {
                continue;
            }
            let mut c = case.clone();
            c.dials = d;
            out.push(c);
        }
        if case.net.drop_pm + case.net.dup_pm + case.net.reorder_pm > 0 || case.net.delay_max_ms > 0 {
            let mut c = case.clone();
            c.net = NetCfg::default();
            out.push(c);
        }
        if case.filter.is_some() {
            let mut c = case.clone();
            c.filter = None;
            out.push(c);
        }
        out
    }
}

// =========================================================================================
// C41

#[derive(Clone, Debug, Serialize, Deserialize)]
pub struct C41Case {
    /// per handler: how long its shutdown() takes (virtual ms)
    pub handler_shutdown_ms: Vec<u64>,
    /// shutdown callers: offset (ms) at which each calls Router::shutdown on a clone
    pub callers_ms: Vec<u64>,
    /// close the endpoint on its own at this offset (before/after the callers)
    pub endpoint_close_ms: Option<u64>,
    /// establish a connection first so that a handler is busy
    pub with_connection: bool,
    pub seed: u64,
}

#[derive(Debug, Clone)]
struct SlowHandler {
    idx: usize,
    shutdown_ms: u64,
    done: Arc<Mutex<Vec<bool>>>,
    ctx: Ctx,
}

impl ProtocolHandler for SlowHandler {
    async fn accept(&self, conn: Connection) -> Result<(), AcceptError> {
        conn.closed().await;
        Ok(())
    }
    async fn shutdown(&self) {
        self.ctx.ev(format!("handler{} shutdown begin", self.idx));
        tokio::time::sleep(Duration::from_millis(self.shutdown_ms)).await;
        self.done.lock().unwrap()[self.idx] = true;
        self.ctx.ev(format!("handler{} shutdown complete", self.idx));
    }
}

pub struct C41;

impl Typed for C41 {
    type Case = C41Case;

    fn gen_case(&self, rng: &mut Rng, _tier: Tier) -> C41Case {
        let nh = rng.range(1, 3);
        let nc = rng.range(1, 4);
        C41Case {
            handler_shutdown_ms: (0..nh).map(|_| rng.edgy(0, 3000, &[0, 1, 100, 1000])).collect(),
            callers_ms: (0..nc).map(|_| rng.edgy(0, 3500, &[0, 0, 1, 50, 100, 999, 1000, 1001])).collect(),
            endpoint_close_ms: if rng.chance(1, 4) { Some(rng.range(0, 2000)) } else { None },
            with_connection: rng.coin(),
            seed: rng.next_u64(),
        }
    }

    fn exec_case(&self, case: &C41Case, ctx: &Ctx) {
        let case = case.clone();
        let ctx2 = ctx.clone();
        run_e1(case.seed, true, ctx, async move {
            let ctx = ctx2;
            let net = SimNet::new(case.seed, NetCfg::default());
            let server = match make_ep(&net, 0, 0, None).await {
                Ok(e) => e,
                Err(e) => {
                    ctx.violate("harness-bind", e);
                    return;
                }
            };
            let done: Arc<Mutex<Vec<bool>>> = Arc::new(Mutex::new(vec![false; case.handler_shutdown_ms.len()]));
            let mut rb = Router::builder(server.clone());
            for (i, ms) in case.handler_shutdown_ms.iter().enumerate() {
                rb = rb.accept(alpn(i as u8), SlowHandler { idx: i, shutdown_ms: *ms, done: done.clone(), ctx: ctx.clone() });
            }
            let router = rb.spawn();
            let mut client = None;
            if case.with_connection {
                if let Ok(c) = make_ep(&net, 1, 1, None).await {
                    let _ = tokio::time::timeout(Duration::from_secs(20), c.connect(EndpointAddr::new(secret(0).public()), &alpn(0))).await;
                    client = Some(c);
                }
            }
            let t0 = tokio::time::Instant::now();
            let viol: Arc<Mutex<Option<(String, String)>>> = Default::default();
            let mut tasks = vec![];
            // set when the harness itself has called Endpoint::close concurrently
            let ext_close_called = Arc::new(std::sync::atomic::AtomicBool::new(false));
            for (k, off) in case.callers_ms.iter().enumerate() {
                let ext_close_called = ext_close_called.clone();
                let r = router.clone();
                let done = done.clone();
                let server = server.clone();
                let ctx = ctx.clone();
                let viol = viol.clone();
                let off = *off;
                tasks.push(tokio::task::spawn_local(async move {
                    tokio::time::sleep_until(t0 + Duration::from_millis(off)).await;
                    ctx.ev(format!("caller{k} shutdown() invoke t={off}"));
                    let res = r.shutdown().await;
                    let handlers_done = done.lock().unwrap().clone();
                    // "closed": Endpoint::close has run to completion. When the harness closed the endpoint
                    // on its own concurrently, the router's own Endpoint::close call returns at once (close is
                    // already in progress), so only "close has been called" (Endpoint::closed() resolves) is required.
                    let closed = server.is_closed()
                        || (ext_close_called.load(std::sync::atomic::Ordering::SeqCst) && futures_util::FutureExt::now_or_never(server.closed()).is_some());
                    ctx.ev(format!("caller{k} shutdown() returned ok={} handlers_done={handlers_done:?} endpoint_closed={closed} t={}", res.is_ok(), t0.elapsed().as_millis()));
                    if !handlers_done.iter().all(|d| *d) || !closed {
                        let mut v = viol.lock().unwrap();
                        if v.is_none() {
                            *v = Some((
                                if !handlers_done.iter().all(|d| *d) { "shutdown-returned-before-handlers-shut-down".into() } else { "shutdown-returned-before-endpoint-closed".into() },
                                format!("caller {k} (invoked at {off} ms) returned at {} ms while handler shutdowns complete = {handlers_done:?}, endpoint closed = {closed}", t0.elapsed().as_millis()),
                            ));
                        }
                    }
                }));
            }
            if let Some(ms) = case.endpoint_close_ms {
                let s = server.clone();
                let ctx3 = ctx.clone();
                let ext = ext_close_called.clone();
                tasks.push(tokio::task::spawn_local(async move {
                    let ctx = ctx3;
                    tokio::time::sleep_until(t0 + Duration::from_millis(ms)).await;
                    ctx.ev(format!("endpoint.close() on its own t={ms}"));
                    ext.store(true, std::sync::atomic::Ordering::SeqCst);
                    let _ = tokio::time::timeout(Duration::from_secs(30), s.close()).await;
                }));
                ctx.count("fault.endpoint_closed_on_its_own");
            }
            for t in tasks {
                let _ = tokio::time::timeout(Duration::from_secs(120), t).await;
            }
            if let Some((c, d)) = viol.lock().unwrap().clone() {
                ctx.violate(c, d);
            }
            if case.callers_ms.len() >= 2 {
                ctx.nontrivial();
            }
            if let Some(c) = client {
                let _ = tokio::time::timeout(Duration::from_secs(30), c.close()).await;
            }
        });
    }

    fn shrink_case(&self, case: &C41Case) -> Vec<C41Case> {
        let mut out = vec![];
        if case.callers_ms.len() > 1 {
            for i in 0..case.callers_ms.len() {
                let mut c = case.clone();
                c.callers_ms.remove(i);
                out.push(c);
            }
        }
        if case.handler_shutdown_ms.len() > 1 {
            let mut c = case.clone();
            c.handler_shutdown_ms.pop();
            out.push(c);
        }
        if case.endpoint_close_ms.is_some() {
            let mut c = case.clone();
            c.endpoint_close_ms = None;
            out.push(c);
        }
        if case.with_connection {
            let mut c = case.clone();
            c.with_connection = false;
            out.push(c);
        }
        out
    }
}

// =========================================================================================
// C42

#[derive(Clone, Debug, Serialize, Deserialize)]
pub struct HookPlan {
    /// per before_connect call of this hook: accept?
    pub before: Vec<bool>,
    /// per after_handshake call of this hook: None accept, Some(code) reject with that close code
    pub after: Vec<Option<u32>>,
}

#[derive(Clone, Debug, PartialEq)]
pub struct HookCall {
    /// 0 = dialer, 1 = listener
    pub side: u8,
    pub hook: usize,
    pub before: bool,
    /// dial index, from the per-dial protocol name
    pub dial: Option<usize>,
    /// None = accept; Some(code) = reject (code 0 for before_connect)
    pub reject: Option<u32>,
}

#[derive(Debug, Clone)]
pub struct SimHooks {
    side: u8,
    hook: usize,
    plan: HookPlan,
    calls: Arc<Mutex<(usize, usize)>>,
    log: Arc<Mutex<Vec<HookCall>>>,
}

fn dial_alpn(i: usize) -> Vec<u8> {
    format!("sim/dial/{i}").into_bytes()
}

fn dial_of(alpn: &[u8]) -> Option<usize> {
    std::str::from_utf8(alpn).ok()?.strip_prefix("sim/dial/")?.parse().ok()
}

impl EndpointHooks for SimHooks {
    async fn before_connect<'a>(&'a self, _remote_addr: &'a EndpointAddr, alpn: &'a [u8]) -> BeforeConnectOutcome {
        let k = {
            let mut c = self.calls.lock().unwrap();
            c.0 += 1;
            c.0 - 1
        };
        let ok = self.plan.before.get(k).copied().unwrap_or(true);
        self.log.lock().unwrap().push(HookCall { side: self.side, hook: self.hook, before: true, dial: dial_of(alpn), reject: if ok { None } else { Some(0) } });
        if ok { BeforeConnectOutcome::Accept } else { BeforeConnectOutcome::Reject }
    }

    async fn after_handshake<'a>(&'a self, conn: &'a Connection) -> AfterHandshakeOutcome {
        let k = {
            let mut c = self.calls.lock().unwrap();
            c.1 += 1;
            c.1 - 1
        };
        let v = self.plan.after.get(k).copied().flatten();
        self.log.lock().unwrap().push(HookCall { side: self.side, hook: self.hook, before: false, dial: dial_of(conn.alpn()), reject: v });
        match v {
            None => AfterHandshakeOutcome::Accept,
            Some(code) => AfterHandshakeOutcome::Reject { error_code: VarInt::from_u32(code), reason: b"sim".to_vec() },
        }
    }
}

#[derive(Clone, Debug, Serialize, Deserialize, PartialEq)]
pub enum DialKind {
    Normal,
    /// like Normal, but the dialer converts the attempt to 0-RTT when a session ticket allows it
    /// and waits for `handshake_completed`
    ZeroRtt,
    /// empty primary protocol name, but a valid additional one in the connect options
    EmptyAlpnWithAdditional,
    SelfDial,
    EmptyAlpn,
}

#[derive(Clone, Debug, Serialize, Deserialize)]
pub struct C42Case {
    pub net: NetCfg,
    pub client_hooks: Vec<HookPlan>,
    pub server_hooks: Vec<HookPlan>,
    pub dials: Vec<DialKind>,
    pub seed: u64,
}

pub struct C42;

fn gen_hook(rng: &mut Rng) -> HookPlan {
    HookPlan {
        before: (0..4).map(|_| rng.chance(3, 4)).collect(),
        after: (0..4).map(|_| if rng.chance(3, 4) { None } else { Some(rng.range(1, 60000) as u32) }).collect(),
    }
}

/// The calls of one kind on one side for one dial must be hook 0, 1, 2, ... in list order, each
/// once, stopping right after the first reject. Returns the rejecting call, if any.
fn check_hook_order(calls: &[&HookCall], n_hooks: usize) -> Result<Option<HookCall>, String> {
    for (pos, c) in calls.iter().enumerate() {
        if c.hook != pos {
            return Err(format!("call #{pos} went to hook {} (calls {calls:?})", c.hook));
        }
        if c.reject.is_some() && pos + 1 != calls.len() {
            return Err(format!("hook {} rejected but later hooks were still called (calls {calls:?})", c.hook));
        }
    }
    let rejected = calls.last().filter(|c| c.reject.is_some()).map(|c| (*c).clone());
    if rejected.is_none() && !calls.is_empty() && calls.len() != n_hooks {
        return Err(format!("only {} of {n_hooks} hooks were called although none rejected (calls {calls:?})", calls.len()));
    }
    Ok(rejected)
}

impl Typed for C42 {
    type Case = C42Case;

    fn gen_case(&self, rng: &mut Rng, _tier: Tier) -> C42Case {
        C42Case {
            net: if rng.coin() { NetCfg::default() } else { gen_net(rng) },
            client_hooks: (0..rng.range(0, 3)).map(|_| gen_hook(rng)).collect(),
            server_hooks: (0..rng.range(0, 3)).map(|_| gen_hook(rng)).collect(),
            dials: (0..rng.range(1, 4)).map(|_| match rng.below(9) { 0 => DialKind::SelfDial, 1 => DialKind::EmptyAlpn, 2 | 3 => DialKind::ZeroRtt, 8 => DialKind::EmptyAlpnWithAdditional, _ => DialKind::Normal }).collect(),
            seed: rng.next_u64(),
        }
    }

    fn exec_case(&self, case: &C42Case, ctx: &Ctx) {
        let case = case.clone();
        let ctx2 = ctx.clone();
        run_e1(case.seed, true, ctx, async move {
            let ctx = ctx2;
            let net = SimNet::new(case.seed, case.net.clone());
            let hook_log: Arc<Mutex<Vec<HookCall>>> = Default::default();
            let mk = |side: u8, plans: &[HookPlan]| -> Vec<SimHooks> {
                plans.iter().enumerate().map(|(i, p)| SimHooks { side, hook: i, plan: p.clone(), calls: Default::default(), log: hook_log.clone() }).collect()
            };
            let server_hooks = mk(1, &case.server_hooks);
            let client_hooks = mk(0, &case.client_hooks);
            let all_alpns: Vec<Vec<u8>> = (0..case.dials.len()).map(dial_alpn).collect();
            let build = |slot: u8, key: u8, hooks: Vec<SimHooks>| {
                let net = net.clone();
                let all_alpns = all_alpns.clone();
                async move {
                    let mut b = Endpoint::builder(presets::Minimal)
                        .secret_key(secret(key))
                        .relay_mode(RelayMode::Disabled)
                        .clear_ip_transports()
        .portmapper_config(iroh::endpoint::PortmapperConfig::Disabled)
                        .dns_resolver(DnsResolver::custom(SimResolver::new(vec![], vec![], vec![])))
                        .add_custom_transport(net.transport(slot))
                        .address_lookup(net.lookup())
                        .alpns(all_alpns);
                    for h in hooks {
                        b = b.hooks(h);
                    }
                    net.route(secret(key).public(), slot);
                    let ep = b.bind().await.map_err(|e| format!("{e:#}"))?;
                    crate::fw::rt::settle_after_bind().await;
                    Ok::<Endpoint, String>(ep)
                }
            };
            let (server, client) = match (build(0, 0, server_hooks).await, build(1, 1, client_hooks).await) {
                (Ok(s), Ok(c)) => (s, c),
                (a, b) => {
                    ctx.violate("harness-bind", format!("{:?} {:?}", a.err(), b.err()));
                    return;
                }
            };
            // listener: records the outcome of every incoming by dial
            let server_log: Arc<Mutex<Vec<(Option<usize>, bool)>>> = Default::default();
            let sl = server_log.clone();
            let s2 = server.clone();
            let acceptor = tokio::task::spawn_local(async move {
                while let Some(inc) = s2.accept().await {
                    let sl = sl.clone();
                    tokio::task::spawn_local(async move {
                        match inc.await {
                            Ok(conn) => {
                                sl.lock().unwrap().push((dial_of(conn.alpn()), true));
                                conn.closed().await;
                            }
                            Err(_) => sl.lock().unwrap().push((None, false)),
                        }
                    });
                }
            });
            struct DialObs {
                established: bool,
                err: String,
                packets: usize,
                closed_with: Option<Option<u32>>,
            }
            let mut obs: Vec<DialObs> = vec![];
            let mut zero_rtt_used = 0u64;
            for (i, kind) in case.dials.iter().enumerate() {
                let before_packets = net.packets_from(1);
                let (target, a): (EndpointAddr, Vec<u8>) = match kind {
                    DialKind::Normal | DialKind::ZeroRtt => (EndpointAddr::new(secret(0).public()), dial_alpn(i)),
                    DialKind::SelfDial => (EndpointAddr::new(secret(1).public()), dial_alpn(i)),
                    DialKind::EmptyAlpn | DialKind::EmptyAlpnWithAdditional => (EndpointAddr::new(secret(0).public()), vec![]),
                };
                let res: Result<Result<Connection, String>, _> = if *kind == DialKind::EmptyAlpnWithAdditional {
                    tokio::time::timeout(Duration::from_secs(40), async {
                        let opts = ConnectOptions::new().with_additional_alpns(vec![dial_alpn(i)]);
                        let connecting = client.connect_with_opts(target, &a, opts).await.map_err(|e| format!("{e:#}"))?;
                        connecting.await.map_err(|e| format!("{e:#}"))
                    })
                    .await
                } else if *kind == DialKind::ZeroRtt {
                    let zero_rtt_used = &mut zero_rtt_used;
                    tokio::time::timeout(Duration::from_secs(40), async {
                        let connecting = client.connect_with_opts(target, &a, ConnectOptions::new()).await.map_err(|e| format!("{e:#}"))?;
                        match connecting.into_0rtt() {
                            Ok(early) => {
                                *zero_rtt_used += 1;
                                match early.handshake_completed().await.map_err(|e| format!("{e:#}"))? {
                                    iroh::endpoint::ZeroRttStatus::Accepted(c) | iroh::endpoint::ZeroRttStatus::Rejected(c) => Ok(c),
                                }
                            }
                            Err(connecting) => connecting.await.map_err(|e| format!("{e:#}")),
                        }
                    })
                    .await
                } else {
                    tokio::time::timeout(Duration::from_secs(40), async { client.connect(target, &a).await.map_err(|e| format!("{e:#}")) }).await
                };
                let packets = net.packets_from(1) - before_packets;
                let (established, err) = match &res {
                    Ok(Ok(_)) => (true, String::new()),
                    Ok(Err(e)) => (false, e.clone()),
                    Err(_) => (false, "timeout".to_string()),
                };
                ctx.ev(format!("dial {i} {kind:?} -> {}", if established { "established" } else { err.split(':').next().unwrap_or("") }));
                let mut closed_with = None;
                if let Ok(Ok(conn)) = res {
                    // how (if at all) does the listener end this connection within 20 virtual seconds?
                    match tokio::time::timeout(Duration::from_secs(20), conn.closed()).await {
                        Ok(iroh::endpoint::ConnectionError::ApplicationClosed(ac)) => closed_with = Some(Some(u64::from(ac.error_code) as u32)),
                        Ok(_) => closed_with = Some(None),
                        Err(_) => {}
                    }
                    conn.close(0u32.into(), b"bye");
                }
                obs.push(DialObs { established, err, packets, closed_with });
                // quiescence between dials: close/drain traffic of this dial must not count for the next one
                tokio::time::sleep(Duration::from_secs(15)).await;
            }
            net.stop_faults();
            tokio::time::sleep(Duration::from_secs(5)).await;
            let log = hook_log.lock().unwrap().clone();
            for c in &log {
                ctx.ev(format!("hook side={} #{} {} dial={:?} -> {:?}", c.side, c.hook, if c.before { "before_connect" } else { "after_handshake" }, c.dial, c.reject));
            }
            let lossless = case.net.drop_pm == 0;
            for (i, kind) in case.dials.iter().enumerate() {
                let o = &obs[i];
                let of = |side: u8, before: bool| -> Vec<&HookCall> {
                    log.iter()
                        .filter(|c| c.side == side && c.before == before && (c.dial == Some(i) || (*kind == DialKind::EmptyAlpn && before && c.dial.is_none() && false)))
                        .collect()
                };
                match kind {
                    DialKind::SelfDial | DialKind::EmptyAlpn | DialKind::EmptyAlpnWithAdditional => {
                        if o.established {
                            ctx.violate(if *kind == DialKind::SelfDial { "self-dial-succeeded" } else { "empty-alpn-dial-succeeded" }, format!("dial {i} ({kind:?})"));
                            return;
                        }
                        ctx.count(if *kind == DialKind::SelfDial { "probe.self_dial_refused" } else { "probe.empty_alpn_refused" });
                    }
                    DialKind::Normal | DialKind::ZeroRtt => {
                        let cb = of(0, true);
                        if !of(1, true).is_empty() {
                            ctx.violate("before-connect-hook-called-on-listener", format!("dial {i}"));
                            return;
                        }
                        let before_reject = match check_hook_order(&cb, case.client_hooks.len()) {
                            Ok(r) => r,
                            Err(e) => {
                                ctx.violate("before-connect-hooks-not-called-in-order-until-first-reject", format!("dial {i}: {e}"));
                                return;
                            }
                        };
                        if cb.len() != case.client_hooks.len() && before_reject.is_none() {
                            ctx.violate("before-connect-hooks-skipped", format!("dial {i}: {} of {} hooks consulted and none rejected", cb.len(), case.client_hooks.len()));
                            return;
                        }
                        let ca = of(0, false);
                        let sa = of(1, false);
                        if let Some(r) = &before_reject {
                            if o.established {
                                ctx.violate("established-despite-before-connect-reject", format!("dial {i}: hook {} rejected", r.hook));
                                return;
                            }
                            if o.packets != 0 {
                                ctx.violate("packets-sent-despite-before-connect-reject", format!("dial {i}: the dialer sent {} packets although hook {} rejected before the handshake", o.packets, r.hook));
                                return;
                            }
                            if !ca.is_empty() || !sa.is_empty() {
                                ctx.violate("after-handshake-hook-called-despite-before-connect-reject", format!("dial {i}: {ca:?} {sa:?}"));
                                return;
                            }
                            ctx.count("probe.before_connect_rejected");
                            continue;
                        }
                        let (cr, sr) = match (check_hook_order(&ca, case.client_hooks.len()), check_hook_order(&sa, case.server_hooks.len())) {
                            (Ok(a), Ok(b)) => (a, b),
                            (a, b) => {
                                ctx.violate("after-handshake-hooks-not-called-in-order-until-first-reject", format!("dial {i}: dialer {:?} listener {:?}", a.err(), b.err()));
                                return;
                            }
                        };
                        let server_established = server_log.lock().unwrap().iter().any(|(d, ok)| *d == Some(i) && *ok);
                        if o.established && (ca.len() != case.client_hooks.len() || cr.is_some()) {
                            ctx.violate("established-on-dialer-without-every-hook-accepting", format!("dial {i}: dialer after_handshake calls {ca:?} of {} hooks", case.client_hooks.len()));
                            return;
                        }
                        if server_established && (sa.len() != case.server_hooks.len() || sr.is_some()) {
                            ctx.violate("established-on-listener-without-every-hook-accepting", format!("dial {i}: listener after_handshake calls {sa:?} of {} hooks", case.server_hooks.len()));
                            return;
                        }
                        if let Some(r) = &sr {
                            ctx.count("probe.listener_after_handshake_rejected");
                            // the dialer, if it got a connection, must see it closed with exactly the hook's code
                            if o.established && lossless {
                                let want = r.reject.unwrap();
                                if o.closed_with != Some(Some(want)) {
                                    ctx.violate("after-handshake-reject-code-not-observed-by-peer", format!("dial {i}: listener hook {} rejected with code {want}; the dialer observed {:?}", r.hook, o.closed_with));
                                    return;
                                }
                            }
                        }
                        if cr.is_some() {
                            ctx.count("probe.dialer_after_handshake_rejected");
                        }
                        if cr.is_none() && sr.is_none() {
                            if lossless && !o.established {
                                ctx.violate("dial-failed-although-all-hooks-accepted", format!("dial {i}: {}", o.err));
                                return;
                            }
                            if lossless && o.closed_with.is_some() {
                                ctx.violate("connection-closed-although-all-hooks-accepted", format!("dial {i}: closed with {:?}", o.closed_with));
                                return;
                            }
                            if o.established {
                                ctx.count("probe.established_all_hooks_accepted");
                            }
                        }
                    }
                }
            }
            ctx.add("fault.packets_dropped", net.log().iter().filter(|p| p.fate == "dropped").count() as u64);
            ctx.add("fault.packets_duplicated", net.log().iter().filter(|p| p.fate == "duplicated").count() as u64);
            ctx.add("probe.zero_rtt_attempts", zero_rtt_used);
            if !case.client_hooks.is_empty() || !case.server_hooks.is_empty() {
                ctx.nontrivial();
            }
            acceptor.abort();
            let _ = tokio::time::timeout(Duration::from_secs(30), client.close()).await;
            let _ = tokio::time::timeout(Duration::from_secs(30), server.close()).await;
        });
    }

    fn shrink_case(&self, case: &C42Case) -> Vec<C42Case> {
        let mut out = vec![];
        // dials carry their index in the protocol name and hooks keep per-call scripts: only drop from the end
        if case.dials.len() > 1 {
            let mut c = case.clone();
            c.dials.pop();
            out.push(c);
        }
        if !case.client_hooks.is_empty() {
            let mut c = case.clone();
            c.client_hooks.pop();
            out.push(c);
        }
        if !case.server_hooks.is_empty() {
            let mut c = case.clone();
            c.server_hooks.pop();
            out.push(c);
        }
        if case.net.drop_pm + case.net.dup_pm + case.net.reorder_pm > 0 || case.net.delay_max_ms > 0 {
            let mut c = case.clone();
            c.net = NetCfg::default();
            out.push(c);
        }
        out
    }
}

fn real_vs_stub() -> Value {
    json!({"real": ["iroh::Endpoint (builder, bind, connect, accept, close)", "socket actor, RemoteMap, RemoteStateActor, AddressLookupServices", "noq QUIC (handshake, retry, streams, close)", "rustls with iroh's raw-public-key verifiers", "iroh::protocol::Router", "endpoint hooks"], "stub": ["network (SimNet behind the public custom-transport traits; IP and relay transports disabled)", "address lookup (SimNet routes)", "DNS (SimResolver)", "clock (tokio paused)", "entropy (seeded, except ring's TLS randomness)"]})
}

macro_rules! prop {
    ($t:ident, $id:expr, $rule:expr, $quick:expr, $thorough:expr) => {
        impl Property for $t {
            fn id(&self) -> &'static str {
                $id
            }
            fn rule(&self) -> String {
                $rule.into()
            }
            fn assumptions(&self) -> Vec<String> {
                vec![
                    "netwatch's interface monitor (netlink + one blocking-pool call at bind) is real OS interaction; it does not influence the scripted workload".into(),
                    "ring's TLS randomness is not seeded: handshake bytes differ between runs, sizes/order/control flow do not".into(),
                ]
            }
            fn real_vs_stub(&self) -> Value {
                real_vs_stub()
            }
            fn runs(&self, tier: Tier) -> u64 {
                match tier {
                    Tier::Quick => $quick,
                    Tier::Thorough => $thorough,
                }
            }
            fn wall_cap_s(&self) -> u64 {
                120
            }
            fn generate(&self, seed: u64, tier: Tier) -> Value {
                fw::typed_generate(self, seed, tier)
            }
            fn execute(&self, case: &Value, ctx: &Ctx) {
                fw::typed_execute(self, case, ctx)
            }
            fn shrink(&self, case: &Value) -> Vec<Value> {
                fw::typed_shrink(self, case)
            }
        }
    };
}

prop!(C40, "C40", "case = (SimNet loss/dup/reorder/delay config, 1..4 registered protocols out of 4, optional incoming filter with a per-incoming verdict script from {accept, reject, ignore, retry-once, retry-always}, 1..4 dials from two clients each offering 1..3 protocols incl. unregistered ones); every dial tags its connection on a uni stream and every handler records (its protocol, negotiated protocol, tag); non-trivial = at least one handler ran and >=2 dials; distinct = distinct history hash", 6000, 400_000);
prop!(C41, "C41", "case = (1..3 handlers whose shutdown() takes 0..3000 virtual ms, 1..4 callers invoking Router::shutdown on clones at offsets 0..3500 ms incl. identical instants, optional Endpoint::close on its own, optional live connection); at each shutdown() return the handler-complete flags and Endpoint::is_closed are sampled; non-trivial = >=2 callers; distinct = distinct history hash", 8000, 400_000);
prop!(C42, "C42", "case = (network config, 0..3 hooks per side with per-call accept/reject scripts and close codes, 1..3 dials of kind normal / self / empty protocol name); the hook call log of each dial, the dial result, the number of packets the dialer sent and the close code the dialer observes are compared with the hook-list semantics; non-trivial = at least one hook installed; distinct = distinct history hash", 6000, 400_000);
