//! C28 — Preferred relay choice is current and sticky.
//!
//! Subject: `net_report::Client::add_report_history_and_set_preferred_relay` (through
//! `iroh::verif::ReportHistory`) on the virtual clock (the function reads `Instant::now()` for its
//! five-minute window).

use std::{collections::BTreeMap, time::Duration};

use iroh::verif::ReportHistory;
use iroh_base::RelayUrl;
use iroh_dns::dns::DnsResolver;
use serde::{Deserialize, Serialize};
use serde_json::{Value, json};

use crate::fw::{self, Ctx, Property, Rng, Tier, Typed, rt::run_e1, simio::SimResolver};

pub struct C28;

#[derive(Clone, Debug, Serialize, Deserialize)]
pub struct Step {
    /// virtual seconds since the previous report
    pub after_ms: u64,
    /// (relay idx, probe kind, latency ms)
    pub lat: Vec<(u8, u8, u64)>,
}

#[derive(Clone, Debug, Serialize, Deserialize)]
pub struct Case {
    pub steps: Vec<Step>,
    pub seed: u64,
}

fn url(i: u8) -> RelayUrl {
    format!("https://relay{i}.example.org./").parse().unwrap()
}

const MAX_AGE_MS: u64 = 5 * 60 * 1000;

fn tls_config() -> rustls::ClientConfig {
    rustls::ClientConfig::builder_with_provider(std::sync::Arc::new(rustls::crypto::ring::default_provider()))
        .with_safe_default_protocol_versions()
        .expect("protocol versions")
        .with_root_certificates(rustls::RootCertStore::empty())
        .with_no_client_auth()
}

impl Typed for C28 {
    type Case = Case;

    fn gen_case(&self, rng: &mut Rng, _tier: Tier) -> Case {
        let n = rng.range(1, 8);
        let n_relays = rng.range(1, 4) as u8;
        let base: Vec<u64> = (0..n_relays).map(|_| rng.range(5, 300)).collect();
        let steps = (0..n)
            .map(|_| {
                let after_ms = match rng.below(6) {
                    0 => 0,
                    1 => rng.range(1, 30_000),
                    2 => *rng.pick(&[MAX_AGE_MS - 1, MAX_AGE_MS, MAX_AGE_MS + 1, MAX_AGE_MS / 2]),
                    3 => rng.range(MAX_AGE_MS - 2000, MAX_AGE_MS + 2000),
                    _ => rng.range(1000, 120_000),
                };
                let mut lat = vec![];
                for r in 0..n_relays {
                    if rng.chance(1, 5) {
                        continue; // relay not measured in this report
                    }
                    for kind in 0..3u8 {
                        if rng.chance(1, 2) {
                            // latency around the relay's base, or around 2/3 of another relay's
                            let l = match rng.below(4) {
                                0 => base[r as usize],
                                1 => (base[rng.usize_below(base.len())] * 2 / 3).max(1) + rng.range(0, 2),
                                2 => (base[rng.usize_below(base.len())] * 2 / 3).max(2) - 1,
                                _ => (base[r as usize] as i64 + rng.range(0, 60) as i64 - 30).max(1) as u64,
                            };
                            lat.push((r, kind, l.max(1)));
                        }
                    }
                }
                Step { after_ms, lat }
            })
            .collect();
        Case { steps, seed: rng.next_u64() }
    }

    fn exec_case(&self, case: &Case, ctx: &Ctx) {
        let case = case.clone();
        let ctx2 = ctx.clone();
        run_e1(case.seed, false, ctx, async move {
            let ctx = ctx2;
            let t0 = tokio::time::Instant::now();
            let mut h = ReportHistory::new(DnsResolver::custom(SimResolver::new(vec![], vec![], vec![])), tls_config());
            // model: history of (time, per-relay min latency), previous preferred
            let mut hist: Vec<(u64, BTreeMap<u8, u64>)> = vec![];
            let mut prev: Option<u8> = None;
            let mut switched = 0;
            let mut stuck = 0;
            for (i, s) in case.steps.iter().enumerate() {
                tokio::time::sleep(Duration::from_millis(s.after_ms)).await;
                let now = t0.elapsed().as_millis() as u64;
                let input: Vec<(RelayUrl, u8, Duration)> = s.lat.iter().map(|(r, k, l)| (url(*r), *k, Duration::from_millis(*l))).collect();
                let got = h.add(&input);
                let got_idx = got.as_ref().map(|u| (0..8u8).find(|i| url(*i) == *u).unwrap_or(255));
                ctx.ev(format!("report {i} t={now} lat={:?} -> preferred {got_idx:?}", s.lat));
                // ---- model ----
                let mut cur: BTreeMap<u8, u64> = BTreeMap::new();
                for (r, _, l) in &s.lat {
                    let e = cur.entry(*r).or_insert(*l);
                    *e = (*e).min(*l);
                }
                // two reports at the same instant: the later replaces the earlier in the history
                hist.retain(|(t, _)| now - *t <= MAX_AGE_MS);
                let mut best: BTreeMap<u8, u64> = cur.clone();
                for (_, m) in &hist {
                    for (r, l) in m {
                        if let Some(e) = best.get_mut(r) {
                            *e = (*e).min(*l);
                        }
                    }
                }
                if cur.is_empty() {
                    if got.is_some() {
                        ctx.violate("preferred-relay-not-measured-in-report", format!("report {i} measured no relay but preferred is {got_idx:?}"));
                        return;
                    }
                    hist.retain(|(t, _)| *t != now);
                    hist.push((now, cur));
                    prev = None;
                    continue;
                }
                let Some(g) = got_idx else {
                    ctx.violate("no-preferred-relay-despite-measurements", format!("report {i}: {:?}", s.lat));
                    return;
                };
                if !cur.contains_key(&g) {
                    ctx.violate("preferred-relay-not-measured-in-report", format!("report {i}: preferred relay{g} is not among the measured {:?}", cur.keys().collect::<Vec<_>>()));
                    return;
                }
                let best_val = *best.values().min().unwrap();
                let best_set: Vec<u8> = best.iter().filter(|(_, l)| **l == best_val).map(|(r, _)| *r).collect();
                // acceptable outcomes
                let mut ok: Vec<u8> = vec![];
                match prev.filter(|p| cur.contains_key(p)) {
                    Some(p) => {
                        let old = cur[&p]; // previous relay's lowest latency in the current report
                        // the statement only restricts *changing*: a change needs best <= 2/3 old
                        let may_switch = best_val * 3 <= old * 2;
                        if may_switch {
                            ok.extend(best_set.iter().copied());
                            // at exactly two thirds integer rounding of the implementation may stick
                            if best_val * 3 + 3 > old * 2 {
                                ok.push(p);
                            }
                        } else {
                            ok.push(p);
                        }
                        if best_set.contains(&p) {
                            ok.push(p);
                        }
                    }
                    None => ok.extend(best_set.iter().copied()),
                }
                if !ok.contains(&g) {
                    let class = match prev.filter(|p| cur.contains_key(p)) {
                        Some(p) if g != p => "switched-although-not-two-thirds-better",
                        Some(_) => "stuck-although-new-relay-two-thirds-better",
                        None => "not-best-latency-over-window",
                    };
                    ctx.violate(
                        class,
                        format!("report {i} at {now} ms: chose relay{g}; previous preferred {prev:?}; lowest latencies in this report {cur:?}; best over 5 min {best:?}; acceptable {ok:?}"),
                    );
                    return;
                }
                if let Some(p) = prev {
                    if cur.contains_key(&p) {
                        if g != p { switched += 1 } else if !best_set.contains(&p) { stuck += 1 }
                    }
                }
                hist.retain(|(t, _)| *t != now);
                hist.push((now, cur));
                prev = Some(g);
            }
            if switched > 0 {
                ctx.count("probe.switched");
            }
            if stuck > 0 {
                ctx.count("probe.stuck_with_previous");
            }
            if switched + stuck > 0 {
                ctx.nontrivial();
            }
        });
    }

    fn shrink_case(&self, case: &Case) -> Vec<Case> {
        let mut out = vec![];
        for s in fw::shrink_vec(&case.steps) {
            if s.is_empty() {
                continue;
            }
            out.push(Case { steps: s, seed: case.seed });
        }
        for i in 0..case.steps.len() {
            for l in fw::shrink_vec(&case.steps[i].lat) {
                let mut c = case.clone();
                c.steps[i].lat = l;
                out.push(c);
            }
            if case.steps[i].after_ms > 1000 {
                let mut c = case.clone();
                c.steps[i].after_ms = 1000;
                out.push(c);
            }
        }
        out
    }
}

impl Property for C28 {
    fn id(&self) -> &'static str {
        "C28"
    }
    fn rule(&self) -> String {
        "case = 1..8 reports over <=4 relays, each relay measured by a random subset of the three probe kinds with latencies drawn around per-relay bases and around two thirds of other relays' bases, gaps between reports drawn around the five-minute window boundary (and 0 = same instant); non-trivial = the stickiness rule was exercised (a switch, or staying with a previous relay that was no longer best); distinct = distinct history hash".into()
    }
    fn assumptions(&self) -> Vec<String> {
        vec![
            "ties in best latency accept any tied relay; at exactly two thirds (+-1 ms) both staying and switching are accepted (integer rounding of Duration/3*2)".into(),
            "a report entered at the very same instant as an earlier one replaces it in the history (BTreeMap keyed by Instant)".into(),
        ]
    }
    fn real_vs_stub(&self) -> Value {
        json!({"real": ["net_report::Client::add_report_history_and_set_preferred_relay", "RelayLatencies::{merge, get, iter, update_relay}"], "stub": ["probes (reports are constructed by the harness)", "clock"]})
    }
    fn runs(&self, tier: Tier) -> u64 {
        match tier {
            Tier::Quick => 40_000,
            Tier::Thorough => 3_000_000,
        }
    }
    fn generate(&self, seed: u64, tier: Tier) -> Value {
        fw::typed_generate(self, seed, tier)
    }
    fn execute(&self, case: &Value, ctx: &Ctx) {
        fw::typed_execute(self, case, ctx)
    }
    fn shrink(&self, case: &Value) -> Vec<Value> {
        fw::typed_shrink(self, case)
    }
}
