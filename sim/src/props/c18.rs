//! C18 — Mapped addresses form a stable bijection.
//!
//! Subject: the three `AddrMap`s (through `iroh::verif::AddrMaps`) with their Mutex being the
//! interceptable shim. Engine E2: 2..4 caller threads doing get / reverse lookup on shared maps;
//! the random host bits are shrunk to 1..3 bits (rand_override seam) so that candidate collisions
//! and the generate-until-unique loop happen all the time.

use std::{
    collections::BTreeMap,
    net::SocketAddr,
    sync::{Arc, Mutex},
};

use iroh::verif::{AddrKind, AddrMaps, classify};
use iroh_base::{CustomAddr, EndpointId, RelayUrl, SecretKey};
use serde::{Deserialize, Serialize};
use serde_json::{Value, json};

use crate::fw::{
    self, Ctx, Property, Rng, Tier, Typed,
    driver::panic_class,
    e2::{self, E2Opts},
};

pub struct C18;

#[derive(Clone, Debug, Serialize, Deserialize, PartialEq)]
pub enum Op {
    /// (map 0 ep /1 relay /2 custom, key)
    Get(u8, u8),
    /// reverse-lookup the address a previous get by this thread returned (index into own results)
    LookupOwn(u8),
    /// reverse-lookup a guessed address in the map's subnet with these host bits
    LookupGuess(u8, u8),
}

#[derive(Clone, Debug, Serialize, Deserialize)]
pub struct Case {
    pub threads: Vec<Vec<Op>>,
    pub rand_bits: u8,
    pub seed: u64,
}

fn ep_key(k: u8) -> EndpointId {
    SecretKey::from_bytes(&[k + 1; 32]).public()
}
fn relay_key(k: u8) -> (RelayUrl, EndpointId) {
    (format!("https://relay{}.example.org./", k % 2).parse().unwrap(), ep_key(k / 2))
}
fn custom_key(k: u8) -> CustomAddr {
    CustomAddr::from_parts(7 + (k % 2) as u64, &[k; 4])
}

fn guess(map: u8, host: u8) -> SocketAddr {
    let subnet = match map { 0 => 0u16, 1 => 1, _ => 3 };
    let ip = std::net::Ipv6Addr::new(0xfd15, 0x070a, 0x510b, subnet, 0, 0, 0, host as u16);
    SocketAddr::new(ip.into(), 12345)
}

#[derive(Debug, Clone)]
struct Rec {
    inv: usize,
    ret: usize,
    map: u8,
    key: Option<u8>,
    addr: SocketAddr,
    /// for lookups: the key found (as key index) or None
    found: Option<Option<u8>>,
}

impl Typed for C18 {
    type Case = Case;

    fn gen_case(&self, rng: &mut Rng, _tier: Tier) -> Case {
        let nt = rng.range(2, 4) as usize;
        let threads = (0..nt)
            .map(|_| {
                (0..rng.range(1, 4))
                    .map(|_| match rng.below(6) {
                        0..=3 => Op::Get(rng.range(0, 2) as u8, rng.range(0, 3) as u8),
                        4 => Op::LookupOwn(rng.range(0, 3) as u8),
                        _ => Op::LookupGuess(rng.range(0, 2) as u8, rng.range(0, 7) as u8),
                    })
                    .collect()
            })
            .collect();
        Case { threads, rand_bits: rng.range(2, 3) as u8, seed: rng.next_u64() }
    }

    fn exec_case(&self, case: &Case, ctx: &Ctx) {
        let maps = AddrMaps::default();
        let recs: Arc<Mutex<Vec<Rec>>> = Default::default();
        let mut bodies: Vec<e2::Body> = vec![];
        for (t, ops) in case.threads.iter().enumerate() {
            let maps = maps.clone();
            let ops = ops.clone();
            let ctx = ctx.clone();
            let recs = recs.clone();
            bodies.push(Box::new(move || {
                let mut own: Vec<(u8, u8, SocketAddr)> = vec![];
                for op in ops {
                    match op {
                        Op::Get(m, k) => {
                            let inv = ctx.ev(format!("t{t} get map{m} key{k} invoke"));
                            let addr = match m {
                                0 => maps.get_ep(&ep_key(k)),
                                1 => maps.get_relay(&relay_key(k)),
                                _ => maps.get_custom(&custom_key(k)),
                            };
                            let ret = ctx.ev(format!("t{t} get map{m} key{k} -> {addr}"));
                            own.push((m, k, addr));
                            recs.lock().unwrap().push(Rec { inv, ret, map: m, key: Some(k), addr, found: None });
                        }
                        Op::LookupOwn(i) => {
                            if own.is_empty() {
                                continue;
                            }
                            let (m, k, addr) = own[i as usize % own.len()];
                            let inv = ctx.ev(format!("t{t} lookup map{m} {addr} invoke"));
                            let found = lookup(&maps, m, addr);
                            let ret = ctx.ev(format!("t{t} lookup map{m} {addr} -> {found:?}"));
                            recs.lock().unwrap().push(Rec { inv, ret, map: m, key: Some(k), addr, found: Some(found) });
                        }
                        Op::LookupGuess(m, h) => {
                            let addr = guess(m, h);
                            let inv = ctx.ev(format!("t{t} lookup-guess map{m} {addr} invoke"));
                            let found = lookup(&maps, m, addr);
                            let ret = ctx.ev(format!("t{t} lookup-guess map{m} {addr} -> {found:?}"));
                            recs.lock().unwrap().push(Rec { inv, ret, map: m, key: None, addr, found: Some(found) });
                        }
                    }
                }
            }));
        }
        let opts = E2Opts { rand_bits: Some(case.rand_bits), max_steps: 50_000, ..Default::default() };
        let res = e2::run_threads(case.seed, ctx, bodies, opts);
        for (msg, loc) in &res.panics {
            ctx.violate(panic_class(loc), format!("panic: {msg} at {loc}"));
        }
        if let Some(d) = &res.deadlock {
            // with 2^bits host values and more keys than values the generate-until-unique loop
            // cannot terminate: that is an artefact of the shrunken space, not a defect
            let keys_in_some_map = (0..3u8).map(|m| {
                let mut s = std::collections::BTreeSet::new();
                for ops in &case.threads { for op in ops { if let Op::Get(mm, k) = op { if *mm == m { s.insert(*k); } } } }
                s.len()
            }).max().unwrap_or(0);
            if keys_in_some_map as u64 > (1u64 << case.rand_bits) {
                ctx.count("probe.address_space_exhausted_skipped");
                return;
            }
            ctx.violate("no-progress", d.clone());
            return;
        }
        let recs = recs.lock().unwrap().clone();
        // (1) stable: one address per (map,key); (2) injective: one key per (map,address)
        let mut by_key: BTreeMap<(u8, u8), SocketAddr> = BTreeMap::new();
        let mut by_addr: BTreeMap<(u8, SocketAddr), u8> = BTreeMap::new();
        for r in recs.iter().filter(|r| r.found.is_none()) {
            let k = r.key.unwrap();
            if let Some(prev) = by_key.insert((r.map, k), r.addr) {
                if prev != r.addr {
                    ctx.violate("mapped-address-changed", format!("map{} key{k}: {prev} then {}", r.map, r.addr));
                    return;
                }
            }
            if let Some(prev) = by_addr.insert((r.map, r.addr), k) {
                if prev != k {
                    ctx.violate("mapped-address-shared", format!("map{} address {} given to key{prev} and key{k}", r.map, r.addr));
                    return;
                }
            }
            let want = match r.map { 0 => AddrKind::Mixed, 1 => AddrKind::Relay, _ => AddrKind::Custom };
            if classify(r.addr) != want {
                ctx.violate("mapped-address-wrong-kind", format!("{} classified {:?}, expected {want:?}", r.addr, classify(r.addr)));
                return;
            }
        }
        // (3) reverse translation
        for r in recs.iter().filter(|r| r.found.is_some()) {
            let found = r.found.unwrap();
            match found {
                Some(k) => {
                    if by_key.get(&(r.map, k)) != Some(&r.addr) {
                        // a lookup may race ahead of the recording get only if that get overlaps it
                        let overlapping = recs.iter().any(|g| g.found.is_none() && g.map == r.map && g.key == Some(k) && g.addr == r.addr);
                        if !overlapping {
                            ctx.violate("reverse-lookup-wrong-key", format!("map{} {} -> key{k}, but key{k} maps to {:?}", r.map, r.addr, by_key.get(&(r.map, k))));
                            return;
                        }
                    }
                }
                None => {
                    // must not miss an address handed out by a get that returned before this lookup began
                    if let Some(g) = recs.iter().find(|g| g.found.is_none() && g.map == r.map && g.addr == r.addr && g.ret < r.inv) {
                        ctx.violate("reverse-lookup-misses-handed-out-address", format!("map{} {} was returned for key{:?} earlier but lookup found nothing", r.map, r.addr, g.key));
                        return;
                    }
                }
            }
        }
        // ordinary addresses are not mistaken for mapped ones
        for a in ["192.0.2.1:80", "[2001:db8::1]:443", "[fd15:70a:510b:2::1]:1", "[fd15:70a:510c::1]:1", "[fe80::1]:1"] {
            let sa: SocketAddr = a.parse().unwrap();
            if classify(sa) != AddrKind::Ip {
                ctx.violate("ordinary-address-misclassified", format!("{a} -> {:?}", classify(sa)));
                return;
            }
        }
        ctx.add("probe.thread_switches", res.switches);
        ctx.add("fault.scheduler_preemption", res.switches);
        let distinct_keys = by_key.len();
        if res.switches >= 2 && distinct_keys >= 2 {
            ctx.nontrivial();
        }
    }

    fn shrink_case(&self, case: &Case) -> Vec<Case> {
        let mut out = vec![];
        if case.threads.len() > 2 {
            for i in 0..case.threads.len() {
                let mut c = case.clone();
                c.threads.remove(i);
                out.push(c);
            }
        }
        for i in 0..case.threads.len() {
            for ops in fw::shrink_vec(&case.threads[i]) {
                if ops.is_empty() { continue; }
                let mut c = case.clone();
                c.threads[i] = ops;
                out.push(c);
            }
        }
        out
    }
}

fn lookup(maps: &AddrMaps, m: u8, addr: SocketAddr) -> Option<u8> {
    match m {
        0 => maps.lookup_ep(addr).and_then(|k| (0..8u8).find(|i| ep_key(*i) == k)),
        1 => maps.lookup_relay(addr).and_then(|k| (0..8u8).find(|i| relay_key(*i) == k)),
        _ => maps.lookup_custom(addr).and_then(|k| (0..8u8).find(|i| custom_key(*i) == k)),
    }
}

impl Property for C18 {
    fn id(&self) -> &'static str {
        "C18"
    }
    fn engine(&self) -> &'static str {
        "E2"
    }
    fn rule(&self) -> String {
        "case = (2..4 caller threads x 1..4 ops from {get(map,key), reverse lookup of an own earlier result, reverse lookup of a guessed address} over the endpoint/relay/custom maps with 4 keys each; random host bits shrunk to 2..3 bits (4..8 values for 4 keys) so collisions are common; seeded schedule with switch points at every lock operation); non-trivial = >=2 thread switches and >=2 distinct keys mapped; distinct = distinct history hash".into()
    }
    fn assumptions(&self) -> Vec<String> {
        vec![
            "runs whose key count exceeds the shrunken address space (the uniqueness loop cannot terminate) are skipped and counted".into(),
            "the classification clause over all socket addresses is a pure function; only a handful of representative ordinary addresses are checked here".into(),
        ]
    }
    fn real_vs_stub(&self) -> Value {
        json!({"real": ["socket::mapped_addrs::{AddrMap::get, AddrMap::lookup, MappedAddr::generate, MultipathMappedAddr::from}"], "stub": ["caller threads", "entropy for host bits (rand_override seam, shrunk)", "Mutex acquire/release interception"]})
    }
    fn runs(&self, tier: Tier) -> u64 {
        match tier {
            Tier::Quick => 20_000,
            Tier::Thorough => 1_000_000,
        }
    }
    fn generate(&self, seed: u64, tier: Tier) -> Value {
        fw::typed_generate(self, seed, tier)
    }
    fn execute(&self, case: &Value, ctx: &Ctx) {
        fw::typed_execute(self, case, ctx)
    }
    fn shrink(&self, case: &Value) -> Vec<Value> {
        fw::typed_shrink(self, case)
    }
}
