//! C04 (forwarding safety), C05 (no third-party disconnect), C06 (registry: newest wins, older
//! resume) — three oracles over the shared relay-registry harness in `relayreg.rs`.

use std::collections::BTreeMap;

use bytes::{BufMut, Bytes, BytesMut};
use serde_json::{Value, json};

use super::relayreg::*;
use crate::fw::{self, Ctx, Property, Rng, Tier, Typed, rt::run_e1, rt::yields};

pub struct C04;
pub struct C05;
pub struct C06;

fn gen_pause(rng: &mut Rng) -> Op {
    match rng.below(6) {
        0 | 1 => Op::Pause { kind: 0, ms: 0 },
        2 => Op::Pause { kind: 1, ms: 0 },
        3 => Op::Pause { kind: 2, ms: 0 },
        _ => Op::Pause { kind: 3, ms: rng.edgy(0, 3000, &[0, 1, 10, 100, 1999, 2000, 2001]) as u32 },
    }
}

fn gen_case(mode: Mode, rng: &mut Rng) -> Case {
    match mode {
        Mode::Kill => {
            // victims' queue depth: mostly roomy, sometimes tiny so that a flood fills it
            let vcap = *rng.pick(&[64u16, 64, 4, 2, 1]);
            let mut ops = vec![
                Op::Register { ident: 0, v1: rng.chance(1, 4), cap: vcap },
                Op::Register { ident: 1, v1: rng.chance(1, 4), cap: vcap },
                Op::Register { ident: 2, v1: false, cap: 64 },
            ];
            let n = rng.range(2, 14);
            for _ in 0..n {
                if rng.chance(1, 6) {
                    // flood: the victim does not read for a moment (far shorter than the write timeout)
                    // while the attacker sends more datagrams than its queue holds, then it reads again
                    let v = rng.range(0, 1) as u8;
                    ops.push(Op::Reading { conn: v, on: false });
                    for _ in 0..rng.range(3, 24) {
                        ops.push(Op::Send { conn: 2, dst: v, len: rng.range(8, 1200) as u32, ecn: 0, seg: None });
                    }
                    ops.push(Op::Pause { kind: 3, ms: rng.range(0, 300) as u32 });
                    ops.push(Op::Reading { conn: v, on: true });
                    continue;
                }
                let op = match rng.below(10) {
                    0..=5 => {
                        let dst = *rng.pick(&[0u8, 0, 1, 2, 3]);
                        let shape = match rng.below(9) {
                            0 => RawShape::DatagramLen(rng.edgy(0, 65_600, &[0, 1, 65_502, 65_503, 65_504]) as u32),
                            1 => RawShape::Batch {
                                seg: *rng.pick(&[0u16, 1, 2, 1200, 65_535]),
                                len: rng.edgy(0, 65_600, &[0, 1, 2, 65_500, 65_501, 65_502]) as u32,
                            },
                            2 => RawShape::Typed { typ: rng.range(0, 20) as u8, len: rng.edgy(0, 70, &[0, 8, 32, 33]) as u32 },
                            3 => RawShape::DatagramFrameLen(*rng.pick(&[32u32, 33, 34, 65_535, 65_536, 65_537])),
                            4 => RawShape::BadKey,
                            5 => RawShape::Empty,
                            6 => RawShape::DatagramLen(0),
                            7 => RawShape::DatagramFrameLen(65_536),
                            _ => RawShape::Typed { typ: *rng.pick(&[4u8, 5, 9, 10]), len: rng.range(0, 40) as u32 },
                        };
                        Op::Raw { conn: 2, dst, shape }
                    }
                    6 => Op::Send { conn: rng.range(0, 1) as u8, dst: rng.range(0, 1) as u8, len: rng.range(8, 1200) as u32, ecn: rng.range(0, 3) as u8, seg: None },
                    7 => Op::Ping { conn: rng.range(0, 2) as u8 },
                    _ => gen_pause(rng),
                };
                ops.push(op);
            }
            Case { n_idents: 3, write_timeout_ms: 2000, calm: false, ops, seed: rng.next_u64() }
        }
        Mode::Forward | Mode::Registry => {
            let n_idents = rng.range(2, 4) as u8;
            let calm = mode == Mode::Registry && rng.coin();
            let mut ops = vec![];
            for i in 0..n_idents.min(2) {
                ops.push(Op::Register { ident: i, v1: rng.chance(1, 4), cap: if calm { 32 } else { *rng.pick(&[1u16, 2, 4, 16]) } });
            }
            let n = rng.range(3, 26);
            for _ in 0..n {
                let roll = rng.below(if mode == Mode::Registry { 24 } else { 20 });
                let op = match roll {
                    0..=2 => Op::Register {
                        ident: rng.range(0, n_idents as u64 - 1) as u8,
                        v1: rng.chance(1, 4),
                        cap: if calm { 32 } else { *rng.pick(&[1u16, 2, 4, 16]) },
                    },
                    3..=10 => Op::Send {
                        conn: rng.range(0, 12) as u8,
                        dst: rng.range(0, n_idents as u64) as u8,
                        len: if calm { rng.range(8, 1200) as u32 } else { gen_len(rng) },
                        ecn: if rng.chance(1, 8) { rng.range(0, 255) as u8 } else { rng.range(0, 3) as u8 },
                        seg: if rng.chance(1, 3) { Some(*rng.pick(&[0u16, 1, 8, 100, 1200, 65_535])) } else { None },
                    },
                    11 | 12 => Op::Close { conn: rng.range(0, 12) as u8 },
                    13 => Op::Error { conn: rng.range(0, 12) as u8 },
                    14 => Op::Disconnect {
                        ident: rng.range(0, n_idents as u64 - 1) as u8,
                        conn: if rng.coin() { Some(rng.range(0, 12) as u8) } else { None },
                    },
                    15 => Op::Ping { conn: rng.range(0, 12) as u8 },
                    16 if !calm => Op::Reading { conn: rng.range(0, 12) as u8, on: rng.chance(1, 3) },
                    17 if !calm => Op::FailSend { conn: rng.range(0, 12) as u8, n: rng.range(0, 2) as u8 },
                    20..=21 => Op::Close { conn: rng.range(0, 12) as u8 },
                    22..=23 => Op::Register { ident: rng.range(0, n_idents as u64 - 1) as u8, v1: rng.chance(1, 4), cap: if calm { 32 } else { 4 } },
                    18 => if rng.chance(1, 4) { Op::Shutdown } else { gen_pause(rng) },
                    _ => gen_pause(rng),
                };
                ops.push(op);
            }
            Case {
                n_idents,
                write_timeout_ms: *rng.pick(&[50u64, 500, 2000]),
                calm,
                ops,
                seed: rng.next_u64(),
            }
        }
    }
}

fn raw_frame(w: &mut World, dst_ident: usize, shape: &RawShape) -> (Bytes, String, usize) {
    // returns (frame bytes, shape class, datagram content length or usize::MAX)
    let key = ident_key(dst_ident);
    let kb = key.as_bytes();
    match shape {
        RawShape::DatagramLen(n) => {
            let (c, _) = w.make_contents(*n as usize);
            let over = 1 + 32 + 1 + c.len() > 65_536;
            let class = if c.is_empty() { "empty-datagram" } else if over { "oversize-datagram" } else { "datagram" };
            (enc_datagram(kb, 0, None, &c), class.into(), c.len())
        }
        RawShape::Batch { seg, len } => {
            let (c, _) = w.make_contents(*len as usize);
            let seg_bytes = if *seg == 0 { 0 } else { 2 };
            let over = 1 + 32 + 1 + seg_bytes + c.len() > 65_536;
            let class = if c.is_empty() { "empty-datagram" } else if over { "oversize-datagram" } else { "batch" };
            (enc_datagram(kb, 0, Some(*seg), &c), class.into(), c.len())
        }
        RawShape::Typed { typ, len } => {
            let mut b = BytesMut::new();
            b.put_u8(*typ);
            let mut body = vec![0u8; *len as usize];
            let n = body.len().min(32);
            body[..n].copy_from_slice(&kb[..n]);
            b.put_slice(&body);
            let is_dgram = (*typ == 4 && *len >= 33) || (*typ == 5 && *len >= 35);
            let clen = if *typ == 4 { (*len as usize).saturating_sub(33) } else { (*len as usize).saturating_sub(35) };
            let class = if is_dgram && clen == 0 { "empty-datagram".to_string() } else { format!("typed-{typ}") };
            (b.freeze(), class, if is_dgram { clen } else { usize::MAX })
        }
        RawShape::DatagramFrameLen(total) => {
            // payload after the type byte has exactly `total` bytes: 32 key + 1 ecn + contents
            let total = (*total as usize).max(33);
            let (c, _) = w.make_contents(total - 33);
            let over = 1 + total > 65_536;
            let class = if c.is_empty() { "empty-datagram" } else if over { "oversize-datagram" } else { "datagram" };
            (enc_datagram(kb, 0, None, &c), class.into(), c.len())
        }
        RawShape::BadKey => {
            let mut b = BytesMut::new();
            b.put_u8(4);
            // not a valid compressed Edwards point for most patterns
            b.put_slice(&[0xEC; 32]);
            b.put_u8(0);
            b.put_slice(b"xxxxxxxxxxxx");
            (b.freeze(), "bad-key".into(), usize::MAX)
        }
        RawShape::Empty => (Bytes::new(), "empty-message".into(), usize::MAX),
    }
}

async fn apply(w: &mut World, ctx: &Ctx, mode: Mode, calm: bool, op: &Op) {
    match op {
        Op::Register { ident, v1, cap } => {
            let ident = *ident as usize % w.n_idents;
            w.register(ctx, ident, *v1, *cap as usize);
        }
        Op::Send { conn, dst, len, ecn, seg } => {
            if let Some(c) = w.pick_conn(*conn) {
                let dst = *dst as usize % (w.n_idents + 1);
                if w.alive(c) {
                    // exact model: accepted iff destination has a registered connection
                    let src_ident = w.conns[c].ident;
                    if w.stack.get(&dst).is_some_and(|s| !s.is_empty()) {
                        w.sent_to.entry(src_ident).or_default().insert(dst);
                    }
                }
                w.send_datagram(ctx, c, dst, *len as usize, *ecn, *seg);
            }
        }
        Op::Raw { conn, dst, shape } => {
            // attacker = newest alive connection of ident `conn`
            let ident = *conn as usize % w.n_idents;
            let att = (0..w.conns.len()).rev().find(|i| w.conns[*i].ident == ident && w.alive(*i));
            let att = match att {
                Some(a) => a,
                None => w.register(ctx, ident, false, 64),
            };
            let dst = *dst as usize % (w.n_idents + 1);
            let (frame, class, clen) = raw_frame(w, dst, shape);
            let seq = w.seq.next();
            ctx.ev(format!("#{seq} attack conn={att} -> ident={dst} shape={shape:?} class={class} content_len={clen} frame_len={}", frame.len()));
            w.attacks.push((seq, att, dst, class));
            ctx.count("fault.adversarial_frame");
            w.conns[att].client.send(frame);
        }
        Op::Close { conn } => {
            if let Some(c) = w.pick_conn(*conn) {
                if w.alive(c) {
                    w.end_conn(ctx, c, "close");
                    w.model_end(c);
                    ctx.count("fault.client_close");
                }
            }
        }
        Op::Error { conn } => {
            if let Some(c) = w.pick_conn(*conn) {
                if w.alive(c) {
                    w.end_conn(ctx, c, "error");
                    w.model_end(c);
                    ctx.count("fault.stream_error");
                }
            }
        }
        Op::Disconnect { ident, conn } => {
            let ident = *ident as usize % w.n_idents;
            let target = conn.and_then(|k| w.pick_conn(k));
            let cid = target.map(|t| w.conns[t].conn_id);
            let expect: Vec<usize> = match target {
                Some(t) => {
                    if w.conns[t].ident == ident && w.stack.get(&ident).is_some_and(|s| s.contains(&t)) { vec![t] } else { vec![] }
                }
                None => w.stack.get(&ident).cloned().unwrap_or_default(),
            };
            if conn.is_some() && target.is_none() {
                return;
            }
            let seq = w.seq.next();
            let found = w.clients.disconnect(ident_key(ident), cid);
            ctx.ev(format!("#{seq} disconnect ident={ident} conn={target:?} -> {found}"));
            ctx.count("fault.admin_disconnect");
            if calm && mode == Mode::Registry && found != !expect.is_empty() {
                ctx.violate(
                    "disconnect-return-value",
                    format!("disconnect(ident {ident}, conn {target:?}) returned {found}, model has matching connections {expect:?}"),
                );
            }
            if found {
                // in non-calm runs the registry may lag behind the model; mark everything that
                // could have matched as end-initiated (sound for the 'definitely alive' reasoning)
                let cands: Vec<usize> = match target {
                    Some(t) => vec![t],
                    None => (0..w.conns.len()).filter(|i| w.conns[*i].ident == ident).collect(),
                };
                for c in cands {
                    if w.alive(c) && w.conns[c].ident == ident {
                        w.conns[c].end_seq = Some(seq);
                        w.conns[c].harness_ended = true;
                        w.model_end(c);
                    }
                }
            }
        }
        Op::Ping { conn } => {
            if let Some(c) = w.pick_conn(*conn) {
                if w.alive(c) {
                    let mut d = [0u8; 8];
                    d.copy_from_slice(&(0xA000_0000_0000_0000u64 + w.next_tag).to_le_bytes());
                    w.next_tag += 1;
                    let mut b = BytesMut::new();
                    b.put_u8(9);
                    b.put_slice(&d);
                    let seq = w.seq.next();
                    ctx.ev(format!("#{seq} ping conn={c}"));
                    w.conns[c].pings_sent.push(d);
                    w.conns[c].client.send(b.freeze());
                }
            }
        }
        Op::Reading { conn, on } => {
            if let Some(c) = w.pick_conn(*conn) {
                w.conns[c].client.set_reading(*on);
                if !*on {
                    w.conns[c].ever_stalled = true;
                    ctx.count("fault.client_stops_reading");
                }
                ctx.ev(format!("reading conn={c} {on}"));
            }
        }
        Op::FailSend { conn, n } => {
            if let Some(c) = w.pick_conn(*conn) {
                w.conns[c].client.fail_send_in(*n as u64);
                w.conns[c].ever_stalled = true;
                ctx.count("fault.server_write_error_armed");
                ctx.ev(format!("fail-send conn={c} in={n}"));
            }
        }
        Op::Shutdown => {
            let seq = w.seq.next();
            let alive: Vec<usize> = (0..w.conns.len()).filter(|c| w.alive(*c)).collect();
            ctx.ev(format!("#{seq} clients.shutdown() started; live conns {alive:?}"));
            ctx.count("fault.registry_shutdown");
            for c in alive {
                w.conns[c].end_seq = Some(seq);
                w.conns[c].harness_ended = true;
            }
            // the registry drops every entry at once and sends no notices
            w.stack.clear();
            // run the synchronous part of shutdown() now (entries removed, actors cancelled), the
            // rest (joining the actors) in the background, racing with whatever the script does next
            let cl = w.clients.clone();
            let mut fut = Box::pin(async move { cl.shutdown().await });
            if futures_util::poll!(&mut fut).is_pending() {
                tokio::task::spawn_local(fut);
            }
        }
        Op::Pause { kind, ms } => match kind {
            0 => {}
            1 => yields(1).await,
            2 => yields(5).await,
            _ => tokio::time::sleep(std::time::Duration::from_millis(*ms as u64)).await,
        },
    }
}

fn status_kind(rx: &Rx) -> Option<&'static str> {
    match rx {
        Rx::Status(1) => Some("same"),
        Rx::Status(0) => Some("healthy"),
        Rx::Health(p) if p.starts_with("Another endpoint connected") => Some("same"),
        Rx::Health(p) if p.starts_with("The connection is healthy") => Some("healthy"),
        _ => None,
    }
}

fn check_calm_counts(w: &World, ctx: &Ctx, after: &str) {
    for (i, c) in w.conns.iter().enumerate() {
        if c.end_seq.is_some() {
            continue;
        }
        let same = c.rx.iter().filter(|r| status_kind(&r.1) == Some("same")).count() as u32;
        let healthy = c.rx.iter().filter(|r| status_kind(&r.1) == Some("healthy")).count() as u32;
        if same != c.exp_same {
            ctx.violate(
                if same < c.exp_same { "displaced-connection-not-told" } else { "spurious-same-endpoint-notice" },
                format!("after {after}: conn {i} (ident {}) received {same} same-endpoint notices, model expects {}", c.ident, c.exp_same),
            );
            return;
        }
        if healthy != c.exp_healthy {
            ctx.violate(
                if healthy < c.exp_healthy { "resumed-connection-not-told-healthy" } else { "spurious-healthy-notice" },
                format!("after {after}: conn {i} (ident {}) received {healthy} healthy notices, model expects {}", c.ident, c.exp_healthy),
            );
            return;
        }
        let mut gone: BTreeMap<usize, u32> = BTreeMap::new();
        for r in &c.rx {
            if let Rx::EndpointGone(k) = &r.1 {
                if let Some(x) = key_bytes_ident(w.n_idents, k) {
                    *gone.entry(x).or_insert(0) += 1;
                }
            }
        }
        if gone != c.exp_gone {
            ctx.violate(
                "peer-gone-notices-differ-from-model",
                format!("after {after}: conn {i} (ident {}) received peer-gone {gone:?}, model expects {:?}", c.ident, c.exp_gone),
            );
            return;
        }
    }
}

fn oracle_forward(w: &World, ctx: &Ctx) {
    let mut delivered: BTreeMap<usize, Vec<(usize, u64)>> = BTreeMap::new();
    let mut per_pair: BTreeMap<(usize, usize), Vec<(u64, usize)>> = BTreeMap::new();
    let mut n_deliveries = 0;
    for (ri, r) in w.conns.iter().enumerate() {
        for (s, rx) in &r.rx {
            let Rx::Datagrams { src, ecn, seg, contents } = rx else { continue };
            n_deliveries += 1;
            let Some(cands) = w.by_contents.get(contents.as_ref()) else {
                ctx.violate("fabricated-datagram", format!("conn {ri} received {} bytes never sent (seq {s})", contents.len()));
                return;
            };
            let src_ident = key_bytes_ident(w.n_idents, src);
            let to_me: Vec<usize> = cands.iter().copied().filter(|i| w.sent[*i].dst_ident == r.ident).collect();
            if to_me.is_empty() {
                ctx.violate(
                    "delivered-to-wrong-endpoint",
                    format!("conn {ri} (ident {}) received a datagram addressed to ident {}", r.ident, w.sent[cands[0]].dst_ident),
                );
                return;
            }
            let ok_src: Vec<usize> = to_me.iter().copied().filter(|i| Some(w.conns[w.sent[*i].src_conn].ident) == src_ident).collect();
            if ok_src.is_empty() {
                ctx.violate(
                    "wrong-sender-id",
                    format!("conn {ri} got datagram labelled from ident {src_ident:?}, true sender ident {}", w.conns[w.sent[to_me[0]].src_conn].ident),
                );
                return;
            }
            let si = ok_src[0];
            let sent = &w.sent[si];
            if (*ecn & 3) != sent.ecn || *seg != sent.seg {
                ctx.violate(
                    "metadata-changed",
                    format!("sent ecn={} seg={:?}, delivered ecn={} seg={:?}", sent.ecn, sent.seg, ecn, seg),
                );
                return;
            }
            if !sent.tracked || ok_src.len() > 1 {
                continue;
            }
            if *s < sent.seq {
                ctx.violate("delivered-before-sent", format!("tag sent at #{} delivered at #{s}", sent.seq));
                return;
            }
            delivered.entry(si).or_default().push((ri, *s));
            per_pair.entry((sent.src_conn, ri)).or_default().push((*s, si));
            // definitely-inactive check
            for (oi, o) in w.conns.iter().enumerate() {
                if oi != ri
                    && o.ident == r.ident
                    && o.reg_seq > r.reg_seq
                    && o.reg_seq < sent.seq
                    && o.end_seq.is_none_or(|e| e > *s)
                {
                    ctx.violate(
                        "delivered-on-inactive-connection",
                        format!("datagram sent at #{} delivered at #{s} on conn {ri} although newer conn {oi} of ident {} was registered at #{} and open throughout", sent.seq, r.ident, o.reg_seq),
                    );
                    return;
                }
            }
        }
    }
    for (si, d) in &delivered {
        if d.len() > 1 {
            ctx.violate("delivered-twice", format!("datagram #{} delivered {:?}", w.sent[*si].seq, d));
            return;
        }
    }
    for ((s, r), v) in per_pair.iter_mut() {
        v.sort();
        if v.windows(2).any(|p| p[0].1 > p[1].1) {
            ctx.violate("reordered", format!("sender conn {s} -> receiver conn {r}: delivery order {:?}", v.iter().map(|x| x.1).collect::<Vec<_>>()));
            return;
        }
    }
    let dup_ident = (0..w.n_idents).any(|i| w.conns.iter().filter(|c| c.ident == i).count() >= 2);
    if n_deliveries >= 3 && dup_ident {
        ctx.nontrivial();
    }
    ctx.add("probe.datagrams_delivered", n_deliveries);
    ctx.add("probe.datagrams_sent", w.sent.len() as u64);
}

fn oracle_registry_safety(w: &World, ctx: &Ctx) {
    for (i, c) in w.conns.iter().enumerate() {
        for (s, rx) in &c.rx {
            match status_kind(rx) {
                Some("same") => {
                    if !w.conns.iter().any(|o| o.ident == c.ident && o.reg_seq > c.reg_seq && o.reg_seq < *s) {
                        ctx.violate("spurious-same-endpoint-notice", format!("conn {i} told 'same endpoint connected' at #{s} but no newer connection existed"));
                        return;
                    }
                }
                Some("healthy") => {
                    if !w.conns.iter().any(|o| o.ident == c.ident && o.reg_seq > c.reg_seq && o.end_seq.is_some_and(|e| e < *s)) {
                        ctx.violate("spurious-healthy-notice", format!("conn {i} told healthy at #{s} but no newer connection had ended"));
                        return;
                    }
                }
                _ => {}
            }
            if let Rx::EndpointGone(k) = rx {
                let Some(x) = key_bytes_ident(w.n_idents, k) else {
                    ctx.violate("peer-gone-unknown-id", format!("conn {i} got peer-gone for unknown key"));
                    return;
                };
                let first_send = w.sent.iter().filter(|t| w.conns[t.src_conn].ident == x && t.dst_ident == c.ident).map(|t| t.seq).min();
                let Some(a) = first_send else {
                    ctx.violate("peer-gone-without-having-sent", format!("conn {i} (ident {}) got peer-gone for ident {x} which never sent to it", c.ident));
                    return;
                };
                // is [a, s] fully covered by definitely-alive intervals of X's connections?
                let mut iv: Vec<(u64, u64)> = w.conns.iter().filter(|o| o.ident == x).map(|o| (o.reg_seq, o.end_seq.unwrap_or(u64::MAX))).collect();
                iv.sort();
                let mut covered_to = a;
                for (lo, hi) in iv {
                    if lo <= covered_to && hi > covered_to {
                        covered_to = hi;
                    }
                }
                let covered = covered_to > *s;
                if covered {
                    ctx.violate(
                        "peer-gone-while-peer-still-connected",
                        format!("conn {i} got peer-gone for ident {x} at #{s}, but ident {x} had an open connection at every instant since it first sent (#{a})"),
                    );
                    return;
                }
                ctx.count("probe.peer_gone_received");
            }
        }
    }
}

async fn final_probe(w: &mut World, ctx: &Ctx) {
    // prober identity = n_idents + 1 (never used by the script), eagerly reading
    let prober_ident = w.n_idents + 1;
    let p = w.register(ctx, prober_ident, false, 64);
    w.settle(ctx, true).await;
    for x in 0..w.n_idents {
        let expected = (0..w.conns.len()).rev().find(|i| w.conns[*i].ident == x && w.conns[*i].end_seq.is_none());
        let before: Vec<usize> = w.conns.iter().map(|c| c.rx.len()).collect();
        let n_sent = w.sent.len();
        w.send_datagram(ctx, p, x, 24, 0, None);
        w.settle(ctx, false).await;
        let probe_contents = w.sent[n_sent].contents.clone();
        let mut got_on: Vec<usize> = vec![];
        for (i, c) in w.conns.iter().enumerate() {
            for (_, rx) in &c.rx[before[i]..] {
                if let Rx::Datagrams { contents, .. } = rx {
                    if *contents == probe_contents {
                        got_on.push(i);
                    }
                }
            }
        }
        // connections that died during the probe itself are not counted against the relay
        let expected_alive = expected.filter(|e| w.conns[*e].end_seq.is_none());
        match expected_alive {
            Some(e) => {
                if got_on != vec![e] {
                    ctx.violate(
                        "traffic-not-delivered-to-newest-open-connection",
                        format!("probe to ident {x}: expected on conn {e} (newest open), delivered on {got_on:?}"),
                    );
                    return;
                }
                ctx.count("probe.final_probe_delivered");
            }
            None => {
                if expected.is_none() && !got_on.is_empty() {
                    ctx.violate("traffic-delivered-to-closed-connection", format!("probe to ident {x}: no open connection, delivered on {got_on:?}"));
                    return;
                }
            }
        }
    }
}

fn exec(mode: Mode, case: &Case, ctx: &Ctx) {
    let case = case.clone();
    let ctx2 = ctx.clone();
    run_e1(case.seed, false, ctx, async move {
        let ctx = ctx2;
        let mut w = World::new(case.n_idents as usize, case.write_timeout_ms);
        for (i, op) in case.ops.iter().enumerate() {
            apply(&mut w, &ctx, mode, case.calm, op).await;
            if ctx.violated() {
                return;
            }
            if case.calm {
                w.settle(&ctx, false).await;
                // a connection that died server-side leaves the exact model
                let dead: Vec<usize> = (0..w.conns.len()).filter(|c| w.conns[*c].end_seq.is_some() && !w.conns[*c].harness_ended && w.stack.get(&w.conns[*c].ident).is_some_and(|s| s.contains(c))).collect();
                for c in dead {
                    w.model_end(c);
                }
                if mode == Mode::Registry {
                    check_calm_counts(&w, &ctx, &format!("op {i} {op:?}"));
                    if ctx.violated() {
                        return;
                    }
                }
            } else {
                w.observe(&ctx);
            }
        }
        match mode {
            Mode::Forward => {
                w.settle(&ctx, true).await;
                oracle_forward(&w, &ctx);
            }
            Mode::Registry => {
                w.settle(&ctx, true).await;
                // An endpoint's entry (and with it a live connection's actor) must not disappear
                // while the connection is open: a connection that never stalled, was never armed
                // with a write error and was not ended by the script must still be served.
                for (i, c) in w.conns.iter().enumerate() {
                    if c.end_seq.is_some() && !c.harness_ended && !c.ever_stalled {
                        ctx.violate(
                            "open-connection-dropped-by-registry",
                            format!("conn {i} (ident {}) was ended by the relay at #{:?} although the script never closed, stalled or faulted it", c.ident, c.end_seq),
                        );
                        return;
                    }
                }
                oracle_registry_safety(&w, &ctx);
                if ctx.violated() {
                    return;
                }
                final_probe(&mut w, &ctx).await;
                let multi = (0..w.n_idents).any(|i| w.conns.iter().filter(|c| c.ident == i).count() >= 2);
                let ended = w.conns.iter().any(|c| c.end_seq.is_some());
                if multi && ended {
                    ctx.nontrivial();
                }
                if case.calm {
                    ctx.count("probe.calm_exact_model_runs");
                }
            }
            Mode::Kill => {
                w.settle(&ctx, true).await;
                // victims: newest connections of ident 0 and 1 registered by the script prefix
                for v in 0..2usize {
                    let Some(ci) = (0..w.conns.len()).find(|i| w.conns[*i].ident == v) else { continue };
                    let c = &w.conns[ci];
                    if let Some(e) = c.end_seq {
                        if !c.harness_ended {
                            // attribute to an attacker frame addressed to the victim that the relay
                            // forwards: a frame shape already known to be unforwardable wins over the last one
                            let fwd: Vec<&(u64, usize, usize, String)> = w
                                .attacks
                                .iter()
                                .filter(|a| a.0 < e && a.2 == v && matches!(a.3.as_str(), "empty-datagram" | "oversize-datagram" | "datagram" | "batch"))
                                .collect();
                            let last = fwd
                                .iter()
                                .rev()
                                .find(|a| a.3 == "empty-datagram")
                                .or_else(|| fwd.iter().rev().find(|a| a.3 == "oversize-datagram"))
                                .or(fwd.last())
                                .copied();
                            let class = if c.ever_stalled {
                                // the victim paused reading for at most 300 ms (write timeout: 2 s) while being flooded
                                "flood-while-briefly-not-reading".to_string()
                            } else {
                                last.map(|a| a.3.clone()).unwrap_or_else(|| "no-forwardable-attack-frame".into())
                            };
                            ctx.violate(
                                format!("victim-disconnected:{class}"),
                                format!("connection {ci} of ident {v} was ended by the relay at #{e}; last attacker frame addressed to it: {last:?}"),
                            );
                            return;
                        }
                    }
                }
                // victims still served: exchange datagrams and pings
                let v0 = (0..w.conns.len()).find(|i| w.conns[*i].ident == 0);
                let v1 = (0..w.conns.len()).find(|i| w.conns[*i].ident == 1);
                if let (Some(a), Some(b)) = (v0, v1) {
                    let before_b = w.conns[b].rx.len();
                    let before_a = w.conns[a].rx.len();
                    let n = w.sent.len();
                    w.send_datagram(&ctx, a, 1, 40, 0, None);
                    w.send_datagram(&ctx, b, 0, 40, 0, None);
                    apply(&mut w, &ctx, mode, false, &Op::Ping { conn: a as u8 }).await;
                    w.settle(&ctx, false).await;
                    let c_ab = w.sent[n].contents.clone();
                    let c_ba = w.sent[n + 1].contents.clone();
                    let got_b = w.conns[b].rx[before_b..].iter().any(|r| matches!(&r.1, Rx::Datagrams{contents, ..} if *contents == c_ab));
                    let got_a = w.conns[a].rx[before_a..].iter().any(|r| matches!(&r.1, Rx::Datagrams{contents, ..} if *contents == c_ba));
                    let ping = w.conns[a].pings_sent.last().copied().unwrap_or([0u8; 8]);
                    let pong = w.conns[a].rx[before_a..].iter().any(|r| matches!(&r.1, Rx::Pong(d) if *d == ping));
                    for v in [a, b] {
                        if w.conns[v].end_seq.is_some() && !w.conns[v].harness_ended {
                            ctx.violate("victim-disconnected:during-final-probe", format!("conn {v} ended by the relay during the final probe"));
                            return;
                        }
                    }
                    if !got_a || !got_b || !pong {
                        ctx.violate(
                            "victim-no-longer-served",
                            format!("after attack: a->b delivered {got_b}, b->a delivered {got_a}, ping answered {pong}"),
                        );
                        return;
                    }
                    if !w.attacks.is_empty() {
                        ctx.nontrivial();
                    }
                }
            }
        }
    });
}

fn shrink(case: &Case, keep_prefix: usize) -> Vec<Case> {
    let mut out = vec![];
    let (pre, rest) = case.ops.split_at(keep_prefix.min(case.ops.len()));
    for ops in fw::shrink_vec(rest) {
        let mut c = case.clone();
        c.ops = pre.iter().cloned().chain(ops).collect();
        out.push(c);
    }
    for (i, op) in case.ops.iter().enumerate() {
        let simpler = match op {
            Op::Pause { kind, .. } if *kind != 0 => Some(Op::Pause { kind: 0, ms: 0 }),
            Op::Send { conn, dst, len, ecn, seg } if *len > 16 || *ecn != 0 || seg.is_some() => {
                Some(Op::Send { conn: *conn, dst: *dst, len: (*len).min(16), ecn: 0, seg: None })
            }
            _ => None,
        };
        if let Some(s) = simpler {
            let mut c = case.clone();
            c.ops[i] = s;
            out.push(c);
        }
    }
    out
}

macro_rules! impl_prop {
    ($t:ident, $id:expr, $mode:expr, $prefix:expr, $rule:expr, $quick:expr, $thorough:expr) => {
        impl Typed for $t {
            type Case = Case;
            fn gen_case(&self, rng: &mut Rng, _tier: Tier) -> Case {
                gen_case($mode, rng)
            }
            fn exec_case(&self, case: &Case, ctx: &Ctx) {
                exec($mode, case, ctx)
            }
            fn shrink_case(&self, case: &Case) -> Vec<Case> {
                shrink(case, $prefix)
            }
        }
        impl Property for $t {
            fn id(&self) -> &'static str {
                $id
            }
            fn rule(&self) -> String {
                $rule.into()
            }
            fn assumptions(&self) -> Vec<String> {
                vec![
                    "entered at the public embedder seam Clients::register + RelayedStream::new over SimFramed; tokio-websockets / hyper framing is below the seam and not exercised here (C07/C08 do)".into(),
                    "liveness-style expectations (notices, probe delivery) are only asserted after a settle of write_timeout + 50 ms virtual with all clients reading".into(),
                ]
            }
            fn real_vs_stub(&self) -> Value {
                json!({"real": ["iroh_relay::server::clients::Clients (registry)", "server::client::{Client, Actor} run loop, ping tracker, queues", "RelayedStream codec (ClientToRelayMsg::from_bytes / RelayToClientMsg::to_bytes)", "tokio mpsc / CancellationToken / dashmap"], "stub": ["WebSocket+TCP+TLS connection (SimFramed message pipe)", "relay clients (hand-written frame encoder/decoder)", "clock", "entropy"]})
            }
            fn runs(&self, tier: Tier) -> u64 {
                match tier {
                    Tier::Quick => $quick,
                    Tier::Thorough => $thorough,
                }
            }
            fn generate(&self, seed: u64, tier: Tier) -> Value {
                fw::typed_generate(self, seed, tier)
            }
            fn execute(&self, case: &Value, ctx: &Ctx) {
                fw::typed_execute(self, case, ctx)
            }
            fn shrink(&self, case: &Value) -> Vec<Value> {
                fw::typed_shrink(self, case)
            }
        }
    };
}

impl_prop!(C04, "C04", Mode::Forward, 0,
    "case = (2..4 endpoint ids, write timeout, 3..26 ops from {register (dup ids allowed, V1/V2, queue capacity 1..16), send tagged datagram/batch (len 0..65502, ecn byte, segment size), client close, stream error, admin disconnect, ping, client stops/resumes reading, armed server write error, pause/yield/sleep}); non-trivial = >=3 datagrams delivered and some id had >=2 connections; distinct = distinct history hash",
    12_000, 1_500_000);
impl_prop!(C05, "C05", Mode::Kill, 3,
    "case = victim + bystander + attacker connections; 2..14 ops: attacker frames of every shape (datagram/batch with content length 0,1,..,decoder limit +-1, segment size 0/1/65535, every frame type byte, bad key, empty message) addressed to victim/bystander/self/unconnected id, interleaved with victim<->bystander datagrams, pings, pauses; non-trivial = at least one adversarial frame was sent; distinct = distinct history hash",
    12_000, 1_500_000);
impl_prop!(C06, "C06", Mode::Registry, 0,
    "case = as C04; half the cases are 'calm' (system settled after every op, all clients reading, capacity 32) and are compared notice-by-notice with an exact sequential registry model (stack per id, sent_to sets); the others check safety of every notice against definitely-alive intervals; every run ends with a probe datagram per id that must arrive exactly on the newest open connection; non-trivial = some id had >=2 connections and some connection ended; distinct = distinct history hash",
    10_000, 1_200_000);
