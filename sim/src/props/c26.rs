//! C26 — Published home relay is the relay most recently chosen.
//!
//! Subject: `HomeRelayWatch` (through `iroh::verif::HomeRelay`): one "RelayActor" thread choosing
//! home relays (`set` / `clear`), 1..3 "ActiveRelayActor" threads reporting status for their own
//! URL (`set_status`). Engine E2 with a schedule point between the read and the write inside
//! `set_status` and at every intercepted lock operation.

use std::sync::{Arc, Mutex};

use iroh::verif::HomeRelay;
use iroh_base::RelayUrl;
use serde::{Deserialize, Serialize};
use serde_json::{Value, json};

use crate::fw::{
    self, Ctx, Property, Rng, Tier, Typed,
    driver::panic_class,
    e2::{self, E2Opts},
};

pub struct C26;

#[derive(Clone, Debug, Serialize, Deserialize, PartialEq)]
pub enum HomeOp {
    Set(u8),
    Clear,
}

#[derive(Clone, Debug, Serialize, Deserialize)]
pub struct Case {
    pub home_ops: Vec<HomeOp>,
    /// per ActiveRelayActor thread: (its url, number of status updates)
    pub actors: Vec<(u8, u8)>,
    pub seed: u64,
}

fn url(i: u8) -> RelayUrl {
    format!("https://relay{}.example.org./", i % 3).parse().unwrap()
}

impl Typed for C26 {
    type Case = Case;

    fn gen_case(&self, rng: &mut Rng, _tier: Tier) -> Case {
        let n = rng.range(1, 4);
        let mut home_ops = vec![HomeOp::Set(rng.range(0, 2) as u8)];
        for _ in 0..n {
            home_ops.push(if rng.chance(1, 5) { HomeOp::Clear } else { HomeOp::Set(rng.range(0, 2) as u8) });
        }
        let na = rng.range(1, 3);
        let actors = (0..na).map(|_| (rng.range(0, 2) as u8, rng.range(1, 3) as u8)).collect();
        Case { home_ops, actors, seed: rng.next_u64() }
    }

    fn exec_case(&self, case: &Case, ctx: &Ctx) {
        let watch = HomeRelay::default();
        // the first Set happens before the actors start (a home relay exists)
        let first = match &case.home_ops[0] {
            HomeOp::Set(u) => *u,
            HomeOp::Clear => 0,
        };
        watch.set(url(first), false);
        ctx.ev(format!("init set url{first}"));
        let viol: Arc<Mutex<Option<(String, String)>>> = Default::default();
        let last_chosen: Arc<Mutex<Option<u8>>> = Arc::new(Mutex::new(Some(first % 3)));
        let mut bodies: Vec<e2::Body> = vec![];
        {
            let watch = watch.clone();
            let ops = case.home_ops[1..].to_vec();
            let ctx = ctx.clone();
            let viol = viol.clone();
            let last_chosen = last_chosen.clone();
            bodies.push(Box::new(move || {
                for (i, op) in ops.iter().enumerate() {
                    let want = match op {
                        HomeOp::Set(u) => {
                            ctx.ev(format!("relay-actor set url{}", u % 3));
                            *last_chosen.lock().unwrap() = Some(u % 3);
                            watch.set(url(*u), false);
                            Some(url(*u))
                        }
                        HomeOp::Clear => {
                            ctx.ev("relay-actor clear");
                            *last_chosen.lock().unwrap() = None;
                            watch.clear();
                            None
                        }
                    };
                    iroh_base::verif::point("harness.after_home_op");
                    let got = watch.get().map(|g| g.0);
                    ctx.ev(format!("relay-actor observes {:?}", got.as_ref().map(|u| u.to_string())));
                    if got != want {
                        let mut v = viol.lock().unwrap();
                        if v.is_none() {
                            *v = Some((
                                "demoted-relay-advertised-again".into(),
                                format!("after home op {i} {op:?} the advertised home relay is {got:?}, most recently chosen {want:?}"),
                            ));
                        }
                        return;
                    }
                }
            }));
        }
        for (k, (u, n)) in case.actors.iter().enumerate() {
            let watch = watch.clone();
            let ctx = ctx.clone();
            let (u, n) = (*u, *n);
            bodies.push(Box::new(move || {
                for j in 0..n {
                    ctx.ev(format!("active-relay-actor{k} url{} set_status #{j}", u % 3));
                    watch.set_status(&url(u), j % 2 == 0);
                    iroh_base::verif::point("harness.after_status");
                }
            }));
        }
        let res = e2::run_threads(case.seed, ctx, bodies, E2Opts::default());
        for (msg, loc) in &res.panics {
            ctx.violate(panic_class(loc), format!("panic: {msg} at {loc}"));
        }
        if let Some(d) = &res.deadlock {
            ctx.violate("deadlock", d.clone());
        }
        if let Some((c, d)) = viol.lock().unwrap().clone() {
            ctx.violate(c, d);
        }
        let fin = watch.get().map(|g| g.0);
        let want = last_chosen.lock().unwrap().map(url);
        ctx.ev(format!("final {:?}", fin.as_ref().map(|u| u.to_string())));
        if fin != want {
            ctx.violate(
                "demoted-relay-advertised-again",
                format!("all actors finished: advertised home relay {fin:?}, most recently chosen {want:?}"),
            );
        }
        ctx.add("probe.thread_switches", res.switches);
        ctx.add("fault.scheduler_preemption", res.switches);
        let stale_actor = case.actors.iter().any(|(u, _)| Some(u % 3) != *last_chosen.lock().unwrap());
        if res.switches >= 2 && stale_actor {
            ctx.nontrivial();
        }
    }

    fn shrink_case(&self, case: &Case) -> Vec<Case> {
        let mut out = vec![];
        if case.home_ops.len() > 2 {
            for i in 1..case.home_ops.len() {
                let mut c = case.clone();
                c.home_ops.remove(i);
                out.push(c);
            }
        }
        if case.actors.len() > 1 {
            for i in 0..case.actors.len() {
                let mut c = case.clone();
                c.actors.remove(i);
                out.push(c);
            }
        }
        for i in 0..case.actors.len() {
            if case.actors[i].1 > 1 {
                let mut c = case.clone();
                c.actors[i].1 -= 1;
                out.push(c);
            }
        }
        out
    }
}

impl Property for C26 {
    fn id(&self) -> &'static str {
        "C26"
    }
    fn engine(&self) -> &'static str {
        "E2"
    }
    fn rule(&self) -> String {
        "case = (RelayActor thread: 2..5 home-relay choices set(url)/clear over 3 URLs; 1..3 ActiveRelayActor threads each sending 1..3 status updates for its own URL; seeded schedule with switch points between the read and the write of set_status and after every op); non-trivial = >=2 thread switches and at least one status writer is for a URL other than the finally chosen one; distinct = distinct history hash".into()
    }
    fn assumptions(&self) -> Vec<String> {
        vec!["n0_watcher::Watchable's internal lock is not intercepted (never held across a schedule point)".into()]
    }
    fn real_vs_stub(&self) -> Value {
        json!({"real": ["HomeRelayWatch::{set, clear, set_status, get}", "n0_watcher::Watchable"], "stub": ["RelayActor / ActiveRelayActor callers (threads issuing the same calls)", "thread scheduling"]})
    }
    fn runs(&self, tier: Tier) -> u64 {
        match tier {
            Tier::Quick => 20_000,
            Tier::Thorough => 1_000_000,
        }
    }
    fn generate(&self, seed: u64, tier: Tier) -> Value {
        fw::typed_generate(self, seed, tier)
    }
    fn execute(&self, case: &Value, ctx: &Ctx) {
        fw::typed_execute(self, case, ctx)
    }
    fn shrink(&self, case: &Value) -> Vec<Value> {
        fw::typed_shrink(self, case)
    }
}
