//! C36 / C37 / C38 / C39 — the pkarr DNS server, in process: real `ZoneStore` (store actor + evict
//! task as local tasks, zone cache), real redb over `SimDisk`, real pkarr PUT/GET handlers, real
//! DNS request handler (hickory catalog + NodeZoneHandler). Packets and DNS queries are built by
//! hand with simple-dns (independent of the repo's encoders).

use std::{
    collections::BTreeMap,
    sync::{Arc, Mutex},
    time::Duration,
};

use bytes::Bytes;
use iroh_base::SecretKey;
use iroh_dns::pkarr::SignedPacket;
use iroh_dns_server::verif::{StoreOptions, VerifServer, dump_tables};
use serde::{Deserialize, Serialize};
use serde_json::{Value, json};
use simple_dns::{
    CLASS, Name, Packet, QCLASS, QTYPE, Question, ResourceRecord, TYPE,
    rdata::{A, AAAA, NS, RData, SOA, TXT},
};

use crate::fw::{
    self, Ctx, Property, Rng, Tier, Typed,
    rt::{E1Hook, run_e1, yields},
    simdisk::{DiskFault, DiskOp, SimDisk, crash_image},
};

const ORIGIN: &str = "dns.example.";
/// wall clock at simulation start: 2026-09-21 (micros)
const EPOCH0: u64 = 1_790_000_000_000_000;

#[derive(Clone, Debug, Serialize, Deserialize, PartialEq)]
pub enum RecKind {
    Txt,
    A,
    Aaaa,
    Soa,
    Ns,
}

#[derive(Clone, Debug, Serialize, Deserialize, PartialEq)]
pub enum Zone {
    /// under the signer's own zone
    Own,
    /// under another key's zone (key index)
    Other(u8),
    /// no key label at all
    None,
    /// last label merely *ends with* the signer's key string ("ab<key>"): outside every zone
    #[serde(alias = "SuffixTrick")]
    KeyAsLabelSuffix,
    /// last label merely *starts with* the signer's key string ("<key>ab"): outside every zone
    KeyAsLabelPrefix,
    /// another key's label below the signer's zone ("<label>.<other>.<signer>"): inside the signer's
    /// zone, but a different name than "<label>.<signer>"
    OtherKeyBelowOwn(u8),
}

#[derive(Clone, Debug, Serialize, Deserialize)]
pub struct Rec {
    pub label: u8,
    pub zone: Zone,
    pub kind: RecKind,
}

#[derive(Clone, Debug, Serialize, Deserialize)]
pub struct Publish {
    pub signer: u8,
    /// key in the request path (None = the signer's)
    pub path_key: Option<u8>,
    /// timestamp offset (micros) relative to EPOCH0; may collide on purpose
    pub ts: i64,
    pub recs: Vec<Rec>,
    pub corrupt_signature: bool,
    pub truncate_body: bool,
    /// Some(j): same signer and byte-identical DNS payload as publish #j of the case (a periodic
    /// republish of unchanged records), only the timestamp differs
    #[serde(default)]
    pub republish_of: Option<u8>,
}

fn secret(k: u8) -> SecretKey {
    SecretKey::from_bytes(&[0x60 + k; 32])
}
fn z32(k: u8) -> String {
    secret(k).public().to_z32()
}
fn label(l: u8) -> &'static str {
    ["_iroh", "a", "b.c", "www"][l as usize % 4]
}

fn rec_name(r: &Rec, signer: u8) -> String {
    match &r.zone {
        Zone::Own => format!("{}.{}", label(r.label), z32(signer)),
        Zone::Other(k) => format!("{}.{}", label(r.label), z32(*k)),
        Zone::None => format!("{}.nokey", label(r.label)),
        Zone::KeyAsLabelSuffix => format!("{}.ab{}", label(r.label), z32(signer)),
        Zone::KeyAsLabelPrefix => format!("{}.{}ab", label(r.label), z32(signer)),
        Zone::OtherKeyBelowOwn(k) => format!("{}.{}.{}", label(r.label), z32(*k), z32(signer)),
    }
}

/// A published record is identified by a marker id embedded in its rdata.
fn rdata_for(kind: &RecKind, marker: u32, strings: &mut Vec<String>) -> usize {
    strings.push(match kind {
        RecKind::Txt => format!("m={marker}"),
        RecKind::Ns | RecKind::Soa => format!("ns{marker}.marker.example"),
        _ => String::new(),
    });
    strings.len() - 1
}

pub struct Built {
    pub bytes: Vec<u8>,
    /// marker -> (name, kind)
    pub markers: Vec<(u32, String, RecKind)>,
}

pub fn build_packet(p: &Publish, marker_base: u32) -> Built {
    let signer = secret(p.signer);
    let mut strings = vec![];
    let names: Vec<String> = p.recs.iter().map(|r| rec_name(r, p.signer)).collect();
    let mut idxs = vec![];
    for (i, r) in p.recs.iter().enumerate() {
        idxs.push(rdata_for(&r.kind, marker_base + i as u32, &mut strings));
    }
    let mut packet = Packet::new_reply(0);
    let mut markers = vec![];
    for (i, r) in p.recs.iter().enumerate() {
        let m = marker_base + i as u32;
        let name = Name::new_unchecked(&names[i]);
        let rdata = match r.kind {
            RecKind::Txt => {
                let mut t = TXT::new();
                t.add_string(&strings[idxs[i]]).unwrap();
                RData::TXT(t)
            }
            RecKind::A => RData::A(A { address: 0x0A09_0000 | (m & 0xffff) }),
            RecKind::Aaaa => RData::AAAA(AAAA { address: (0x2001_0db8u128 << 96) | m as u128 }),
            RecKind::Ns => RData::NS(NS(Name::new_unchecked(&strings[idxs[i]]))),
            RecKind::Soa => RData::SOA(SOA {
                mname: Name::new_unchecked(&strings[idxs[i]]),
                rname: Name::new_unchecked("admin.marker.example"),
                serial: m,
                refresh: 1,
                retry: 1,
                expire: 1,
                minimum: 1,
            }),
        };
        packet.answers.push(ResourceRecord::new(name, CLASS::IN, 30, rdata));
        markers.push((m, names[i].clone(), r.kind.clone()));
    }
    let encoded = packet.build_bytes_vec_compressed().expect("dns encodes");
    let ts = (EPOCH0 as i64 + p.ts) as u64;
    let mut signable = format!("3:seqi{}e1:v{}:", ts, encoded.len()).into_bytes();
    signable.extend(&encoded);
    let mut sig = signer.sign(&signable).to_bytes();
    if p.corrupt_signature {
        sig[5] ^= 0x40;
    }
    let mut bytes = Vec::new();
    bytes.extend_from_slice(signer.public().as_bytes());
    bytes.extend_from_slice(&sig);
    bytes.extend_from_slice(&ts.to_be_bytes());
    bytes.extend_from_slice(&encoded);
    Built { bytes, markers }
}

fn marker_of(rr: &ResourceRecord<'_>) -> Option<u32> {
    match &rr.rdata {
        RData::TXT(t) => {
            let s: String = t.clone().try_into().ok()?;
            s.strip_prefix("m=")?.parse().ok()
        }
        RData::A(a) if a.address & 0xffff_0000 == 0x0A09_0000 => Some(a.address & 0xffff),
        RData::AAAA(a) if (a.address >> 96) == 0x2001_0db8 => Some(a.address as u32),
        RData::NS(NS(n)) => n.to_string().strip_prefix("ns")?.split('.').next()?.parse().ok(),
        RData::SOA(s) => s.mname.to_string().strip_prefix("ns")?.split('.').next()?.parse().ok(),
        _ => None,
    }
}

fn qtype(k: &RecKind) -> TYPE {
    match k {
        RecKind::Txt => TYPE::TXT,
        RecKind::A => TYPE::A,
        RecKind::Aaaa => TYPE::AAAA,
        RecKind::Soa => TYPE::SOA,
        RecKind::Ns => TYPE::NS,
    }
}

fn build_query(name: &str, k: &RecKind, id: u16) -> Vec<u8> {
    let mut q = Packet::new_query(id);
    q.questions.push(Question::new(Name::new_unchecked(name).into_owned(), QTYPE::TYPE(qtype(k)), QCLASS::CLASS(CLASS::IN), false));
    q.build_bytes_vec().expect("query encodes")
}

fn opts(rng: &mut Rng) -> (usize, u64, usize) {
    (rng.range(1, 8) as usize, *rng.pick(&[1u64, 10, 100, 1000]), rng.range(1, 4) as usize)
}

#[derive(Clone, Debug, Serialize, Deserialize)]
pub struct Cfg {
    pub max_batch_size: usize,
    pub max_batch_time_ms: u64,
    pub cache_capacity: usize,
}

fn gen_cfg(rng: &mut Rng) -> Cfg {
    let (a, b, c) = opts(rng);
    Cfg { max_batch_size: a, max_batch_time_ms: b, cache_capacity: c }
}

fn open(disk: SimDisk, cfg: &Cfg, eviction: Duration, eviction_interval: Duration) -> VerifServer {
    try_open(disk, cfg, eviction, eviction_interval).expect("server opens")
}

fn try_open(disk: SimDisk, cfg: &Cfg, eviction: Duration, eviction_interval: Duration) -> Option<VerifServer> {
    VerifServer::open(
        disk,
        StoreOptions {
            max_batch_size: cfg.max_batch_size,
            max_batch_time: Duration::from_millis(cfg.max_batch_time_ms),
            eviction,
            eviction_interval,
            cache_capacity: cfg.cache_capacity,
        },
        vec![ORIGIN.to_string(), ".".to_string()],
    )
    .ok()
}

fn gen_recs(rng: &mut Rng, adversarial: bool) -> Vec<Rec> {
    (0..rng.range(1, 4))
        .map(|_| Rec {
            label: rng.range(0, 3) as u8,
            zone: if adversarial && rng.chance(1, 3) {
                match rng.below(6) {
                    0 | 1 => Zone::Other(rng.range(0, 2) as u8),
                    2 => Zone::None,
                    3 => Zone::KeyAsLabelSuffix,
                    4 => Zone::KeyAsLabelPrefix,
                    _ => Zone::OtherKeyBelowOwn(rng.range(0, 2) as u8),
                }
            } else {
                Zone::Own
            },
            kind: match rng.below(if adversarial { 8 } else { 5 }) {
                0..=2 => RecKind::Txt,
                3 => RecKind::A,
                4 => RecKind::Aaaa,
                5 => RecKind::Soa,
                6 => RecKind::Ns,
                _ => RecKind::Txt,
            },
        })
        .collect()
}

/// Observed answers to one DNS query: markers found in the answer section.
async fn query(server: &VerifServer, key: u8, lbl: u8, kind: &RecKind, id: u16) -> Result<(u8, Vec<(u32, String, u16)>), String> {
    let name = format!("{}.{}.{}", label(lbl), z32(key), ORIGIN);
    query_name(server, &name, kind, id).await
}

async fn query_name(server: &VerifServer, name: &str, kind: &RecKind, id: u16) -> Result<(u8, Vec<(u32, String, u16)>), String> {
    let wire = build_query(name, kind, id);
    let resp = server.dns_query(&wire).await.map_err(|e| format!("{e:#}"))?;
    let pkt = Packet::parse(&resp).map_err(|e| format!("unparsable response: {e}"))?;
    let mut out = vec![];
    for rr in &pkt.answers {
        if let Some(m) = marker_of(rr) {
            out.push((m, rr.name.to_string(), u16::from(rr.rdata.type_code())));
        }
    }
    Ok((pkt.rcode() as u8, out))
}

// =====================================================================================
// Shared model of what was published

#[derive(Default)]
struct Model {
    /// per key: currently stored packet (index into published)
    stored: BTreeMap<u8, usize>,
    published: Vec<(Publish, Built, SignedPacket)>,
}

impl Model {
    /// Applies an accepted publish; returns whether it became the stored packet.
    fn apply(&mut self, idx: usize) -> bool {
        let key = self.published[idx].0.signer;
        match self.stored.get(&key) {
            Some(cur) => {
                let curp = &self.published[*cur].2;
                let newp = &self.published[idx].2;
                // the store keeps the existing packet only if it is strictly more recent
                if curp.more_recent_than(newp) {
                    false
                } else {
                    self.stored.insert(key, idx);
                    true
                }
            }
            None => {
                self.stored.insert(key, idx);
                true
            }
        }
    }
}

// =====================================================================================
// C36 + C37 : sequential publishes per step, queries after each

#[derive(Clone, Debug, Serialize, Deserialize)]
pub struct SeqCase {
    pub cfg: Cfg,
    pub publishes: Vec<Publish>,
    pub seed: u64,
}

fn run_seq(case: &SeqCase, ctx: &Ctx, check_updates: bool) {
    let case = case.clone();
    let ctx2 = ctx.clone();
    let upserts: Arc<Mutex<Vec<String>>> = Default::default();
    let hook = E1Hook::install(ctx, case.seed, &[]);
    {
        let u = upserts.clone();
        *hook.0.on_event.lock().unwrap() = Some(Box::new(move |site, data| {
            if site == "store.upsert" {
                u.lock().unwrap().push(data.to_string());
            }
        }));
    }
    run_e1(case.seed, false, ctx, async move {
        let ctx = ctx2;
        *hook.0.wall.lock().unwrap() = Some((EPOCH0 + 1_000_000_000, tokio::time::Instant::now(), 0));
        let server = open(SimDisk::new(), &case.cfg, Duration::from_secs(3600 * 24 * 365), Duration::from_secs(3600));
        let mut model = Model::default();
        let mut marker_base = 1u32;
        let mut qid = 1u16;
        let mut rejected = 0;
        let mut noop = 0;
        let mut bases: Vec<u32> = vec![];
        for (i, p) in case.publishes.iter().enumerate() {
            // a republish carries the records (and markers) of the publish it repeats
            let (p, base) = match p.republish_of.map(|j| j as usize).filter(|j| *j < i) {
                Some(j) => {
                    ctx.count("probe.republish_of_unchanged_records");
                    let mut q = p.clone();
                    q.signer = case.publishes[j].signer;
                    q.recs = case.publishes[j].recs.clone();
                    (q, bases[j])
                }
                None => (p.clone(), marker_base),
            };
            let p = &p;
            bases.push(base);
            let built = build_packet(p, base);
            marker_base += 16;
            let path_key = p.path_key.unwrap_or(p.signer);
            let mut body = built.bytes[32..].to_vec();
            if p.truncate_body {
                body.truncate(body.len().saturating_sub(5).max(10));
            }
            // snapshot of all answers before a publish that should be rejected
            let should_reject = p.corrupt_signature || p.truncate_body || path_key != p.signer;
            if p.corrupt_signature {
                ctx.count("fault.publish_with_corrupt_signature");
            }
            if p.truncate_body {
                ctx.count("fault.publish_with_truncated_body");
            }
            if path_key != p.signer {
                ctx.count("fault.publish_under_foreign_key_path");
            }
            if p.recs.iter().any(|r| !matches!(r.zone, Zone::Own)) {
                ctx.count("fault.publish_with_record_outside_signer_zone");
            }
            let before = if should_reject { Some(snapshot(&server, &mut qid).await) } else { None };
            let n_ups = upserts.lock().unwrap().len();
            let status = server.pkarr_put(&z32(path_key), Bytes::from(body)).await;
            ctx.ev(format!("publish #{i} signer=k{} path=k{path_key} ts={} recs={} corrupt={} trunc={} -> {status}", p.signer, p.ts, p.recs.len(), p.corrupt_signature, p.truncate_body));
            let updated_evt = upserts.lock().unwrap().len() > n_ups;
            if should_reject {
                if (200..300).contains(&status) {
                    ctx.violate("unauthentic-publish-accepted", format!("publish #{i} ({p:?}) was answered {status}"));
                    return;
                }
                rejected += 1;
                let after = snapshot(&server, &mut qid).await;
                if Some(&after) != before.as_ref() {
                    ctx.violate("rejected-publish-changed-answers", format!("publish #{i} was rejected with {status} but answers changed"));
                    return;
                }
                if updated_evt {
                    ctx.violate("rejected-publish-stored", format!("publish #{i}"));
                    return;
                }
                continue;
            }
            if !(200..300).contains(&status) {
                ctx.violate("authentic-publish-rejected", format!("publish #{i} ({p:?}) was answered {status}"));
                return;
            }
            let sp = SignedPacket::from_bytes(&built.bytes).expect("own packet verifies");
            model.published.push((p.clone(), built, sp));
            let idx = model.published.len() - 1;
            let other_keys_before: Vec<(u8, Vec<(u8, u8, Vec<u32>)>)> = vec![];
            let _ = other_keys_before;
            let became = model.apply(idx);
            if !became {
                noop += 1;
            }
            if check_updates && updated_evt != became {
                ctx.violate(
                    if became { "newer-packet-not-stored" } else { "older-packet-reported-as-update" },
                    format!("publish #{i} (key k{} ts {}): store reported update={updated_evt}, model says it {} the stored packet", p.signer, p.ts, if became { "became" } else { "did not become" }),
                );
                return;
            }
            // ---- answers for every key after this publish ----
            if let Err((c, d)) = check_answers(&server, &model, &mut qid, &ctx).await {
                ctx.violate(c, format!("after publish #{i}: {d}"));
                return;
            }
        }
        if rejected > 0 {
            ctx.count("probe.rejected_publishes");
        }
        if noop > 0 {
            ctx.count("probe.publish_not_newest");
        }
        if model.published.len() >= 2 {
            ctx.nontrivial();
        }
        drop(server);
        yields(4).await;
    });
}

/// All marker answers for 3 keys x 4 labels x 5 types.
async fn snapshot(server: &VerifServer, qid: &mut u16) -> Vec<Vec<(u32, String, u16)>> {
    let mut out = vec![];
    for k in 0..3u8 {
        for l in 0..4u8 {
            for kind in [RecKind::Txt, RecKind::A, RecKind::Aaaa, RecKind::Soa, RecKind::Ns] {
                *qid = qid.wrapping_add(1);
                out.push(query(server, k, l, &kind, *qid).await.map(|r| r.1).unwrap_or_default());
            }
        }
    }
    out
}

async fn check_answers(server: &VerifServer, model: &Model, qid: &mut u16, ctx: &Ctx) -> Result<(), (String, String)> {
    for k in 0..3u8 {
        let stored = model.stored.get(&k).map(|i| &model.published[*i]);
        // pkarr GET
        let (status, body) = server.pkarr_get(&z32(k)).await;
        match stored {
            Some((_, built, _)) => {
                if status != 200 || body[..] != built.bytes[32..] {
                    return Err(("served-packet-is-not-the-newest".into(), format!("GET key k{k}: status {status}, body differs from the newest published packet")));
                }
            }
            None => {
                if status == 200 {
                    return Err(("packet-served-for-unpublished-key".into(), format!("GET key k{k} returned a packet")));
                }
            }
        }
        for l in 0..4u8 {
            for kind in [RecKind::Txt, RecKind::A, RecKind::Aaaa, RecKind::Soa, RecKind::Ns] {
                *qid = qid.wrapping_add(1);
                let (_rcode, answers) = query(server, k, l, &kind, *qid).await.map_err(|e| ("dns-query-failed".to_string(), e))?;
                let qname = format!("{}.{}.{}", label(l), z32(k), ORIGIN);
                // expected markers: records of the stored packet of k, under k's zone, that name+type, not SOA/NS
                let mut want: Vec<u32> = vec![];
                if let Some((_, built, _)) = stored {
                    if !matches!(kind, RecKind::Soa | RecKind::Ns) {
                        for (m, name, rk) in &built.markers {
                            if *rk == kind && format!("{name}.{ORIGIN}") == qname {
                                want.push(*m);
                            }
                        }
                    }
                }
                let mut got: Vec<u32> = answers.iter().map(|a| a.0).collect();
                got.sort();
                want.sort();
                for a in &answers {
                    // every marked answer record must come from k's stored packet
                    let from_k = stored.is_some_and(|(_, b, _)| b.markers.iter().any(|(m, _, _)| *m == a.0));
                    if !from_k {
                        return Err((
                            "answer-contains-record-not-published-by-zone-key".into(),
                            format!("query {qname} {kind:?}: answer carries marker {} which is not in the packet stored for key k{k}", a.0),
                        ));
                    }
                    if matches!(kind, RecKind::Soa | RecKind::Ns) {
                        return Err(("published-soa-or-ns-served".into(), format!("query {qname} {kind:?} answered with published record marker {}", a.0)));
                    }
                }
                if got != want {
                    return Err((
                        "answers-differ-from-stored-packet".into(),
                        format!("query {qname} {kind:?}: answered markers {got:?}, the newest packet of key k{k} has {want:?}"),
                    ));
                }
                if !want.is_empty() {
                    ctx.count("probe.nonempty_answers_checked");
                }
            }
        }
        // names in which k's key label is NOT the label directly below the origin: the zone is decided by
        // that position only, so these are answered from another zone (or not at all), never from k's
        for l in 0..2u8 {
            for kind in [RecKind::Txt, RecKind::A] {
                let k2 = (k + 1) % 3;
                let shapes = [
                    (format!("{}.{}.sub.{}", label(l), z32(k), ORIGIN), None),
                    (format!("{}.{}.a.b.{}", label(l), z32(k), ORIGIN), None),
                    (format!("{}.{}.{}.{}", label(l), z32(k), z32(k2), ORIGIN), Some(k2)),
                ];
                for (qname, zone_key) in shapes {
                    *qid = qid.wrapping_add(1);
                    let (_rc, answers) = query_name(server, &qname, &kind, *qid).await.map_err(|e| ("dns-query-failed".to_string(), e))?;
                    let mut want: Vec<u32> = vec![];
                    if let Some(zk) = zone_key {
                        if let Some((_, built, _)) = model.stored.get(&zk).map(|i| &model.published[*i]) {
                            for (m, name, rk) in &built.markers {
                                if *rk == kind && format!("{name}.{ORIGIN}") == qname {
                                    want.push(*m);
                                }
                            }
                        }
                    }
                    let mut got: Vec<u32> = answers.iter().map(|a| a.0).collect();
                    got.sort();
                    want.sort();
                    if got != want {
                        return Err((
                            "answer-from-zone-of-a-key-not-directly-below-origin".into(),
                            format!("query {qname} {kind:?}: answered markers {got:?}, expected {want:?} (the zone of a name is the key label directly below the origin)"),
                        ));
                    }
                    ctx.count("probe.key_label_position_queries");
                }
            }
        }
    }
    Ok(())
}

fn gen_publish(rng: &mut Rng, adversarial: bool, ts_pool: &[i64]) -> Publish {
    let signer = rng.range(0, 2) as u8;
    Publish {
        signer,
        path_key: if adversarial && rng.chance(1, 6) { Some(rng.range(0, 2) as u8) } else { None },
        ts: if rng.chance(1, 2) { *rng.pick(ts_pool) } else { rng.range(0, 5_000_000) as i64 },
        recs: gen_recs(rng, adversarial),
        corrupt_signature: adversarial && rng.chance(1, 8),
        truncate_body: adversarial && rng.chance(1, 12),
        republish_of: None,
    }
}

pub struct C36;
pub struct C37;

impl Typed for C36 {
    type Case = SeqCase;
    fn gen_case(&self, rng: &mut Rng, _tier: Tier) -> SeqCase {
        let pool: Vec<i64> = (0..3).map(|_| rng.range(0, 1_000_000) as i64).collect();
        let n = rng.range(2, 7);
        SeqCase { cfg: gen_cfg(rng), publishes: (0..n).map(|_| gen_publish(rng, true, &pool)).collect(), seed: rng.next_u64() }
    }
    fn exec_case(&self, case: &SeqCase, ctx: &Ctx) {
        run_seq(case, ctx, false)
    }
    fn shrink_case(&self, case: &SeqCase) -> Vec<SeqCase> {
        shrink_seq(case)
    }
}

impl Typed for C37 {
    type Case = SeqCase;
    fn gen_case(&self, rng: &mut Rng, _tier: Tier) -> SeqCase {
        // few distinct timestamps so that equal timestamps (payload tie-break) are common
        let pool: Vec<i64> = (0..2).map(|_| rng.range(0, 1000) as i64).collect();
        let n = rng.range(2, 9);
        let mut publishes: Vec<Publish> = (0..n).map(|_| gen_publish(rng, false, &pool)).collect();
        for p in publishes.iter_mut() {
            if rng.chance(2, 3) {
                p.ts = *rng.pick(&pool) + rng.range(0, 1) as i64;
            }
            if rng.coin() {
                p.signer = 0;
            }
        }
        // periodic republishes of unchanged records: same payload as an earlier publish, own timestamp
        for i in 1..publishes.len() {
            if rng.chance(1, 4) {
                publishes[i].republish_of = Some(rng.range(0, i as u64 - 1) as u8);
            }
        }
        SeqCase { cfg: gen_cfg(rng), publishes, seed: rng.next_u64() }
    }
    fn exec_case(&self, case: &SeqCase, ctx: &Ctx) {
        run_seq(case, ctx, true)
    }
    fn shrink_case(&self, case: &SeqCase) -> Vec<SeqCase> {
        shrink_seq(case)
    }
}

fn shrink_seq(case: &SeqCase) -> Vec<SeqCase> {
    let mut out = vec![];
    for p in fw::shrink_vec(&case.publishes) {
        if p.is_empty() {
            continue;
        }
        let mut c = case.clone();
        c.publishes = p;
        out.push(c);
    }
    for i in 0..case.publishes.len() {
        if case.publishes[i].recs.len() > 1 {
            for r in fw::shrink_vec(&case.publishes[i].recs) {
                if r.is_empty() {
                    continue;
                }
                let mut c = case.clone();
                c.publishes[i].recs = r;
                out.push(c);
            }
        }
    }
    out
}

// =====================================================================================
// C38 : lookups racing publishes for one key

#[derive(Clone, Debug, Serialize, Deserialize)]
pub struct RaceCase {
    pub cfg: Cfg,
    /// publish timestamps (strictly increasing), with a gap (yields / ms) before each
    pub publishes: Vec<(u8, u32)>,
    /// lookups: (gap kind, gap amount, via pkarr GET instead of DNS)
    pub lookups: Vec<(u8, u32, bool)>,
    pub resolve_yields: u32,
    pub insert_yields: u32,
    pub seed: u64,
}

pub struct C38;

async fn gap(kind: u8, n: u32) {
    match kind % 3 {
        0 => {}
        1 => yields(n % 8).await,
        _ => tokio::time::sleep(Duration::from_millis((n % 20) as u64)).await,
    }
}

impl Typed for C38 {
    type Case = RaceCase;
    fn gen_case(&self, rng: &mut Rng, _tier: Tier) -> RaceCase {
        RaceCase {
            cfg: gen_cfg(rng),
            publishes: (0..rng.range(1, 4)).map(|_| (rng.range(0, 2) as u8, rng.range(0, 30) as u32)).collect(),
            lookups: (0..rng.range(2, 8)).map(|_| (rng.range(0, 2) as u8, rng.range(0, 30) as u32, rng.chance(1, 4))).collect(),
            resolve_yields: rng.range(0, 6) as u32,
            insert_yields: rng.range(0, 3) as u32,
            seed: rng.next_u64(),
        }
    }

    fn exec_case(&self, case: &RaceCase, ctx: &Ctx) {
        let case = case.clone();
        let ctx2 = ctx.clone();
        let hook = E1Hook::install(
            ctx,
            case.seed,
            &[("zone_store.resolve.after_store_get", case.resolve_yields), ("zone_store.insert.after_upsert", case.insert_yields)],
        );
        *hook.0.on_event.lock().unwrap() = Some(Box::new(|_, _| {}));
        run_e1(case.seed, false, ctx, async move {
            let ctx = ctx2;
            *hook.0.wall.lock().unwrap() = Some((EPOCH0 + 1_000_000_000, tokio::time::Instant::now(), 0));
            let server = open(SimDisk::new(), &case.cfg, Duration::from_secs(3600 * 24 * 365), Duration::from_secs(3600));
            // acknowledged publishes: (ack history index, packet seq number)
            let acks: Arc<Mutex<Vec<(usize, u32)>>> = Default::default();
            let results: Arc<Mutex<Vec<(usize, usize, Option<u32>, bool)>>> = Default::default();
            let publisher = {
                let server = server.clone();
                let ctx = ctx.clone();
                let acks = acks.clone();
                let plan = case.publishes.clone();
                tokio::task::spawn_local(async move {
                    for (n, (gk, ga)) in plan.iter().enumerate() {
                        gap(*gk, *ga).await;
                        let p = Publish { signer: 0, path_key: None, ts: 1000 * (n as i64 + 1), recs: vec![Rec { label: 0, zone: Zone::Own, kind: RecKind::Txt }], corrupt_signature: false, truncate_body: false, republish_of: None };
                        // marker = packet sequence number + 1
                        let built = build_packet(&p, n as u32 + 1);
                        ctx.ev(format!("publish P{} invoke", n + 1));
                        let status = server.pkarr_put(&z32(0), Bytes::from(built.bytes[32..].to_vec())).await;
                        let at = ctx.ev(format!("publish P{} acknowledged {status}", n + 1));
                        if (200..300).contains(&status) {
                            acks.lock().unwrap().push((at, n as u32 + 1));
                        }
                    }
                })
            };
            let resolver = {
                let server = server.clone();
                let ctx = ctx.clone();
                let results = results.clone();
                let plan = case.lookups.clone();
                tokio::task::spawn_local(async move {
                    for (i, (gk, ga, via_get)) in plan.iter().enumerate() {
                        gap(*gk, *ga).await;
                        let inv = ctx.ev(format!("lookup {i} invoke get={via_get}"));
                        let seen: Option<u32> = if *via_get {
                            let (status, body) = server.pkarr_get(&z32(0)).await;
                            if status == 200 {
                                let mut bytes = secret(0).public().as_bytes().to_vec();
                                bytes.extend_from_slice(&body);
                                SignedPacket::from_bytes(&bytes).ok().map(|sp| ((sp.timestamp().as_micros() - EPOCH0) / 1000) as u32)
                            } else {
                                None
                            }
                        } else {
                            match query(&server, 0, 0, &RecKind::Txt, i as u16 + 1).await {
                                Ok((_, a)) => a.iter().map(|x| x.0).max(),
                                Err(_) => None,
                            }
                        };
                        let ret = ctx.ev(format!("lookup {i} -> {seen:?}"));
                        results.lock().unwrap().push((inv, ret, seen, *via_get));
                    }
                })
            };
            let _ = tokio::time::timeout(Duration::from_secs(60), async { let _ = publisher.await; let _ = resolver.await; }).await;
            // one more lookup after everything settled
            tokio::time::sleep(Duration::from_secs(2)).await;
            let inv = ctx.ev("final lookup invoke");
            let seen = query(&server, 0, 0, &RecKind::Txt, 999).await.ok().and_then(|(_, a)| a.iter().map(|x| x.0).max());
            let ret = ctx.ev(format!("final lookup -> {seen:?}"));
            results.lock().unwrap().push((inv, ret, seen, false));
            let acks = acks.lock().unwrap().clone();
            let mut raced = false;
            for (inv, _ret, seen, via_get) in results.lock().unwrap().iter() {
                let required = acks.iter().filter(|(at, _)| at < inv).map(|(_, n)| *n).max();
                if let Some(req) = required {
                    if seen.is_none_or(|s| s < req) {
                        ctx.violate(
                            if *via_get { "packet-read-behind-acknowledged-publish" } else { "dns-answer-behind-acknowledged-publish" },
                            format!("lookup invoked at history #{inv} saw packet {seen:?}, but publish P{req} had been acknowledged before it was invoked"),
                        );
                        return;
                    }
                }
                if acks.iter().any(|(at, _)| at > inv) && !acks.is_empty() {
                    raced = true;
                }
            }
            if raced {
                ctx.nontrivial();
            }
            drop(server);
            yields(4).await;
        });
    }

    fn shrink_case(&self, case: &RaceCase) -> Vec<RaceCase> {
        let mut out = vec![];
        for p in fw::shrink_vec(&case.publishes) {
            if p.is_empty() {
                continue;
            }
            let mut c = case.clone();
            c.publishes = p;
            out.push(c);
        }
        for l in fw::shrink_vec(&case.lookups) {
            let mut c = case.clone();
            c.lookups = l;
            out.push(c);
        }
        out
    }
}

// =====================================================================================
// C39 : crash enumeration + eviction

#[derive(Clone, Debug, Serialize, Deserialize)]
pub struct DurCase {
    pub cfg: Cfg,
    /// (signer, ts offset micros, gap ms before it)
    pub publishes: Vec<(u8, i64, u32)>,
    /// Some((op index, enospc)) = inject a disk error in the live run
    pub disk_fault: Option<(u64, bool)>,
    /// eviction scenario instead of crash enumeration
    pub eviction: Option<EvictCase>,
    pub seed: u64,
}

#[derive(Clone, Debug, Serialize, Deserialize)]
pub struct EvictCase {
    pub retention_s: u64,
    pub interval_s: u64,
    /// packet ages in seconds relative to "now" at publish time (positive = older)
    pub ages_s: Vec<(u8, i64)>,
    /// wall clock step (seconds) applied mid-run
    pub clock_step_s: i64,
    pub run_s: u64,
    /// (key, virtual ms after start) fresh packets published while the evict task runs; instants
    /// are biased onto the eviction ticks so that a publish lands between the evict task's
    /// snapshot and its expiry checks
    #[serde(default)]
    pub republish: Vec<(u8, u64)>,
}

pub struct C39;

impl Typed for C39 {
    type Case = DurCase;
    fn gen_case(&self, rng: &mut Rng, _tier: Tier) -> DurCase {
        if rng.chance(1, 3) {
            let retention_s = *rng.pick(&[60u64, 600, 3600]);
            let n = rng.range(1, 5);
            let ages_s = (0..n)
                .map(|i| {
                    let a = match rng.below(4) {
                        0 => rng.range(0, retention_s - 1) as i64,
                        1 => rng.range(retention_s + 1, 3 * retention_s) as i64,
                        2 => retention_s as i64 + rng.range(0, 40) as i64 - 20,
                        _ => rng.range(0, 2 * retention_s) as i64,
                    };
                    (i as u8 % 3, a)
                })
                .collect();
            DurCase {
                cfg: gen_cfg(rng),
                publishes: vec![],
                disk_fault: None,
                eviction: Some({
                    let interval_s = *rng.pick(&[1u64, 10, 30]);
                    let run_s = rng.range(5, 100);
                    let republish = (0..rng.range(0, 3))
                        .map(|_| {
                            let tick = rng.range(0, run_s / interval_s) * interval_s * 1000;
                            let at = match rng.below(4) {
                                0 => rng.range(0, run_s * 1000),
                                1 => tick + rng.range(0, 2),
                                _ => tick,
                            };
                            (rng.range(0, 2) as u8, at)
                        })
                        .collect();
                    EvictCase { retention_s, interval_s, ages_s, clock_step_s: if rng.chance(1, 3) { rng.range(0, 120) as i64 - 60 } else { 0 }, run_s, republish }
                }),
                seed: rng.next_u64(),
            }
        } else {
            let n = rng.range(1, 5);
            DurCase {
                cfg: gen_cfg(rng),
                publishes: (0..n).map(|_| (rng.range(0, 2) as u8, rng.range(0, 3000) as i64, rng.range(0, 1500) as u32)).collect(),
                disk_fault: if rng.chance(1, 5) { Some((rng.range(5, 60), rng.coin())) } else { None },
                eviction: None,
                seed: rng.next_u64(),
            }
        }
    }

    fn exec_case(&self, case: &DurCase, ctx: &Ctx) {
        match &case.eviction {
            Some(e) => run_eviction(case, e, ctx),
            None => run_crash(case, ctx),
        }
    }

    fn shrink_case(&self, case: &DurCase) -> Vec<DurCase> {
        let mut out = vec![];
        for p in fw::shrink_vec(&case.publishes) {
            if p.is_empty() {
                continue;
            }
            let mut c = case.clone();
            c.publishes = p;
            out.push(c);
        }
        if case.disk_fault.is_some() {
            let mut c = case.clone();
            c.disk_fault = None;
            out.push(c);
        }
        out
    }
}

fn run_crash(case: &DurCase, ctx: &Ctx) {
    let case = case.clone();
    let ctx2 = ctx.clone();
    let disk = SimDisk::new();
    if let Some((k, enospc)) = case.disk_fault {
        disk.0.lock().unwrap().fault_at = Some((k, if enospc { DiskFault::Enospc } else { DiskFault::Eio }));
    }
    // (disk log length at commit, upsert descriptions pending at that commit)
    let commits: Arc<Mutex<Vec<(usize, Vec<String>)>>> = Default::default();
    let pending: Arc<Mutex<Vec<String>>> = Default::default();
    let hook = E1Hook::install(ctx, case.seed, &[]);
    {
        let commits = commits.clone();
        let pending = pending.clone();
        let disk = disk.clone();
        *hook.0.on_event.lock().unwrap() = Some(Box::new(move |site, data| match site {
            "store.upsert" => pending.lock().unwrap().push(data.to_string()),
            "store.commit" => {
                let p = std::mem::take(&mut *pending.lock().unwrap());
                commits.lock().unwrap().push((disk.log_len(), p));
            }
            _ => {}
        }));
    }
    let published: Arc<Mutex<Vec<(u8, SignedPacket)>>> = Default::default();
    let published2 = published.clone();
    let disk2 = disk.clone();
    run_e1(case.seed, false, ctx, async move {
        let ctx = ctx2;
        *hook.0.wall.lock().unwrap() = Some((EPOCH0 + 1_000_000_000, tokio::time::Instant::now(), 0));
        let Some(server) = try_open(disk2, &case.cfg, Duration::from_secs(3600 * 24 * 365), Duration::from_secs(3600)) else {
            // only an injected disk error may make opening fail
            if case.disk_fault.is_none() {
                ctx.violate("open-failed-on-healthy-disk", "store could not be opened".to_string());
            }
            ctx.count("probe.open_failed_on_injected_disk_error");
            return;
        };
        for (i, (signer, ts, gap_ms)) in case.publishes.iter().enumerate() {
            tokio::time::sleep(Duration::from_millis(*gap_ms as u64)).await;
            let p = Publish { signer: *signer, path_key: None, ts: *ts, recs: vec![Rec { label: 0, zone: Zone::Own, kind: RecKind::Txt }], corrupt_signature: false, truncate_body: false, republish_of: None };
            let built = build_packet(&p, i as u32 + 1);
            let sp = SignedPacket::from_bytes(&built.bytes).unwrap();
            published2.lock().unwrap().push((*signer, sp));
            let status = tokio::time::timeout(Duration::from_secs(30), server.pkarr_put(&z32(*signer), Bytes::from(built.bytes[32..].to_vec()))).await.unwrap_or(599);
            ctx.ev(format!("publish #{i} k{signer} ts={ts} -> {status}"));
        }
        tokio::time::sleep(Duration::from_millis(case.cfg.max_batch_time_ms + 1500)).await;
        drop(server);
        yields(6).await;
    });
    let fired = disk.0.lock().unwrap().fault_fired;
    if fired {
        ctx.count("fault.disk_error_injected");
    }
    let commits = commits.lock().unwrap().clone();
    let published = published.lock().unwrap().clone();
    if !check_crash_images(ctx, &disk.log(), &commits, &published, true, case.seed) {
        return;
    }
    if disk.log().len() > 10 && !commits.is_empty() {
        ctx.nontrivial();
    }
}

/// Simulates a crash after every prefix of the disk log, reopens the image through redb recovery
/// and checks both tables. `require_committed`: every packet whose batch committed before the crash
/// (or a newer one) must be there — not demanded when the workload also evicts.
fn check_crash_images(ctx: &Ctx, log: &[DiskOp], commits: &[(usize, Vec<String>)], published: &[(u8, SignedPacket)], require_committed: bool, seed: u64) -> bool {
    // ---- crash enumeration over every prefix of the disk log ----
    let mut rng = Rng::new(seed ^ 0xC4A5);
    let mut torn_total = 0;
    let mut unsynced_points = 0;
    // crash workloads: every prefix; eviction workloads (long logs): at most ~400 evenly spaced
    // prefixes plus the final state
    let step = if require_committed { 1 } else { (log.len() / 400).max(1) };
    let mut checked = 0u64;
    for prefix in (0..=log.len()).filter(|p| p % step == 0 || *p == log.len()) {
        checked += 1;
        let (image, n_unsynced, _persisted, torn) = crash_image(log, prefix, &mut rng);
        torn_total += torn as u64;
        if n_unsynced > 0 {
            unsynced_points += 1;
        }
        if image.is_empty() {
            continue;
        }
        let dumped = dump_tables(SimDisk::from_image(image));
        let (packets, index) = match dumped {
            Ok(d) => d,
            Err(e) => {
                // a database whose very first header commit has not completed may be unopenable
                if commits.is_empty() || prefix < commits[0].0 {
                    ctx.count("probe.crash_before_first_commit_unopenable");
                    continue;
                }
                ctx.violate("reopen-after-crash-failed", format!("crash after {prefix} of {} disk ops: {e:#}", log.len()));
                return false;
            }
        };
        ctx.count("probe.crash_points_checked");
        // required: for each key the newest packet whose commit preceded the crash
        let mut required: BTreeMap<u8, &SignedPacket> = BTreeMap::new();
        for (at, ups) in commits {
            if require_committed && *at <= prefix {
                for u in ups {
                    let parts: Vec<&str> = u.split(' ').collect();
                    for (k, sp) in published {
                        let h = sp.as_bytes().iter().fold(0xcbf2_9ce4_8422_2325u64, |h, b| (h ^ *b as u64).wrapping_mul(0x0000_0100_0000_01B3));
                        if parts.len() == 3 && parts[0] == z32(*k) && parts[2] == format!("{h:016x}") {
                            let e = required.entry(*k).or_insert(sp);
                            if sp.more_recent_than(e) {
                                *e = sp;
                            }
                        }
                    }
                }
            }
        }
        let mut stored: BTreeMap<u8, SignedPacket> = BTreeMap::new();
        for (key, value) in &packets {
            let Some(k) = (0..3u8).find(|k| secret(*k).public().as_bytes() == key) else {
                ctx.violate("unknown-key-after-crash", format!("crash after {prefix} ops"));
                return false;
            };
            let body = if value.len() >= 8 { &value[8..] } else { &value[..] };
            let Some((_, sp)) = published.iter().find(|(pk, sp)| *pk == k && sp.as_bytes() == body) else {
                ctx.violate("stored-packet-is-not-a-published-packet", format!("crash after {prefix} of {} ops: key k{k} holds {} bytes that match no published packet", log.len(), body.len()));
                return false;
            };
            stored.insert(k, sp.clone());
        }
        for (k, req) in &required {
            match stored.get(k) {
                None => {
                    ctx.violate("committed-packet-lost-after-crash", format!("crash after {prefix} of {} disk ops: key k{k} has no packet although a batch containing one had committed", log.len()));
                    return false;
                }
                Some(sp) => {
                    if req.more_recent_than(sp) {
                        ctx.violate("committed-packet-rolled-back-after-crash", format!("crash after {prefix} ops: key k{k} holds ts {} but ts {} had committed", sp.timestamp().as_micros(), req.timestamp().as_micros()));
                        return false;
                    }
                }
            }
        }
        // index = {(timestamp(p), key(p))} exactly
        let mut want_idx: Vec<(u64, [u8; 32])> = stored.iter().map(|(k, sp)| (sp.timestamp().as_micros(), *secret(*k).public().as_bytes())).collect();
        let mut got_idx = index.clone();
        want_idx.sort();
        got_idx.sort();
        // publish-only workloads: exact equality. Evicting workloads: every stored packet must be
        // indexed under its own timestamp (or it would never be evicted); rows without a packet are
        // a state the store anticipates (a CheckExpired sent for an older row evicts a newer, also
        // expired packet; the leftover row is dropped by the next scan's "not found" branch)
        let consistent = if require_committed { want_idx == got_idx } else { want_idx.iter().all(|w| got_idx.contains(w)) };
        if got_idx.len() != want_idx.len() {
            ctx.count("probe.crash_image_with_dangling_index_rows");
        }
        if !consistent {
            ctx.violate(
                "expiry-index-inconsistent-after-crash",
                format!("crash after {prefix} of {} ops: index rows {:?}, stored packets imply {:?}", log.len(), got_idx.iter().map(|x| x.0).collect::<Vec<_>>(), want_idx.iter().map(|x| x.0).collect::<Vec<_>>()),
            );
            return false;
        }
    }
    ctx.add("fault.crash_points", checked);
    ctx.add("fault.torn_writes", torn_total);
    ctx.add("probe.crash_points_with_unsynced_writes", unsynced_points);
    true
}

fn run_eviction(case: &DurCase, e: &EvictCase, ctx: &Ctx) {
    let case = case.clone();
    let e = e.clone();
    let ctx2 = ctx.clone();
    let evicted: Arc<Mutex<Vec<(String, tokio::time::Instant)>>> = Default::default();
    let hook = E1Hook::install(ctx, case.seed, &[]);
    let disk = SimDisk::new();
    let commits: Arc<Mutex<Vec<(usize, Vec<String>)>>> = Default::default();
    let published: Arc<Mutex<Vec<(u8, SignedPacket)>>> = Default::default();
    {
        let ev = evicted.clone();
        let commits = commits.clone();
        let disk = disk.clone();
        *hook.0.on_event.lock().unwrap() = Some(Box::new(move |site, data| {
            if site == "store.evict" {
                ev.lock().unwrap().push((data.to_string(), tokio::time::Instant::now()));
            }
            if site == "store.commit" {
                commits.lock().unwrap().push((disk.log_len(), vec![]));
            }
        }));
    }
    let (disk2, published2) = (disk.clone(), published.clone());
    run_e1(case.seed, false, ctx, async move {
        let ctx = ctx2;
        let t0 = tokio::time::Instant::now();
        let wall0 = EPOCH0 + 10_000_000_000_000;
        *hook.0.wall.lock().unwrap() = Some((wall0, t0, 0));
        let published = published2;
        let server = open(disk2, &case.cfg, Duration::from_secs(e.retention_s), Duration::from_secs(e.interval_s));
        let mut packets: Vec<(u8, u64)> = vec![]; // (key, ts micros)
        for (i, (k, age)) in e.ages_s.iter().enumerate() {
            // one packet per key: later packets for a key must be newer to be stored
            let ts = (wall0 as i64 - age * 1_000_000 + i as i64) as u64;
            let p = Publish { signer: *k, path_key: None, ts: ts as i64 - EPOCH0 as i64, recs: vec![Rec { label: 0, zone: Zone::Own, kind: RecKind::Txt }], corrupt_signature: false, truncate_body: false, republish_of: None };
            let built = build_packet(&p, i as u32 + 1);
            published.lock().unwrap().push((*k, SignedPacket::from_bytes(&built.bytes).unwrap()));
            let status = server.pkarr_put(&z32(*k), Bytes::from(built.bytes[32..].to_vec())).await;
            ctx.ev(format!("publish k{k} age={age}s -> {status}"));
            packets.push((*k, ts));
        }
        // newest per key is what the store holds
        let mut newest: BTreeMap<u8, u64> = BTreeMap::new();
        for (k, ts) in &packets {
            let en = newest.entry(*k).or_insert(*ts);
            *en = (*en).max(*ts);
        }
        // fresh publishes racing the evict task
        let republished: Arc<Mutex<Vec<(u8, u64)>>> = Default::default();
        let server = Arc::new(server);
        for (n, (k, at_ms)) in e.republish.iter().enumerate() {
            let (k, at_ms) = (*k, *at_ms);
            let server = server.clone();
            let hook_wall = hook.0.clone();
            let republished = republished.clone();
            let published = published.clone();
            let ctx = ctx.clone();
            let n_old = e.ages_s.len() as u32;
            tokio::task::spawn_local(async move {
                tokio::time::sleep_until(t0 + Duration::from_millis(at_ms)).await;
                // one second old by the store's own (simulated) wall clock
                let now = {
                    let w = hook_wall.wall.lock().unwrap();
                    let (base, at, skew) = w.expect("wall clock installed");
                    base as i128 + at.elapsed().as_micros() as i128 + skew as i128
                };
                let ts = (now - 1_000_000) as u64;
                let p = Publish { signer: k, path_key: None, ts: ts as i64 - EPOCH0 as i64, recs: vec![Rec { label: 0, zone: Zone::Own, kind: RecKind::Txt }], corrupt_signature: false, truncate_body: false, republish_of: None };
                let built = build_packet(&p, n_old + 10 + n as u32);
                published.lock().unwrap().push((k, SignedPacket::from_bytes(&built.bytes).unwrap()));
                let status = server.pkarr_put(&z32(k), Bytes::from(built.bytes[32..].to_vec())).await;
                ctx.ev(format!("republish k{k} at {at_ms} ms ts={ts} -> {status}"));
                if (200..300).contains(&status) {
                    republished.lock().unwrap().push((k, ts));
                    ctx.count("probe.republish_during_eviction");
                }
            });
        }
        tokio::time::sleep(Duration::from_secs(e.run_s / 2)).await;
        if e.clock_step_s != 0 {
            let mut w = hook.0.wall.lock().unwrap();
            if let Some(x) = w.as_mut() {
                x.2 += e.clock_step_s * 1_000_000;
            }
            ctx.count("fault.wall_clock_step");
        }
        tokio::time::sleep(Duration::from_secs(e.run_s - e.run_s / 2)).await;
        // settle: faults stopped; give eviction one full cycle
        let settle = e.interval_s + case.cfg.max_batch_time_ms / 1000 + 2;
        tokio::time::sleep(Duration::from_secs(settle)).await;
        for (k, ts) in republished.lock().unwrap().iter() {
            let en = newest.entry(*k).or_insert(*ts);
            *en = (*en).max(*ts);
        }
        let skew = e.clock_step_s * 1_000_000;
        // safety: at removal time the packet was older than the cut-off
        for (data, at) in evicted.lock().unwrap().iter() {
            let parts: Vec<&str> = data.split(' ').collect();
            let ts: u64 = parts[1].parse().unwrap_or(0);
            let el = at.duration_since(t0).as_micros() as i128;
            // "now" for the store is Timestamp::now(), which never goes backwards: the monotonic
            // envelope of the wall clock (step applied iff it happened before the removal)
            let stepped = at.duration_since(t0) >= Duration::from_secs(e.run_s / 2);
            let pre_step = wall0 as i128 + (e.run_s / 2) as i128 * 1_000_000;
            let raw = wall0 as i128 + el + if stepped { skew as i128 } else { 0 };
            let wall = if stepped && skew < 0 { raw.max(pre_step) } else { raw };
            let cutoff = wall - e.retention_s as i128 * 1_000_000;
            ctx.ev(format!("evicted {} age_at_removal_s={}", parts[0].get(..6).unwrap_or(""), (wall - ts as i128) / 1_000_000));
            // 1 s slack: the clock keeps running between the cut-off computation and the event
            if (ts as i128) > cutoff + 1_000_000 {
                ctx.violate("unexpired-packet-evicted", format!("packet ts {ts} removed while the cut-off was {cutoff} (retention {} s)", e.retention_s));
                return;
            }
        }
        // liveness: every stored packet older than the cut-off is gone now
        let pre_step = wall0 as i128 + (e.run_s / 2) as i128 * 1_000_000;
        let now_raw = wall0 as i128 + t0.elapsed().as_micros() as i128 + skew as i128;
        let now_wall = if skew < 0 { now_raw.max(pre_step) } else { now_raw };
        for (k, ts) in &newest {
            let (status, _) = server.pkarr_get(&z32(*k)).await;
            let age_us = now_wall - *ts as i128;
            let expired_for = age_us - e.retention_s as i128 * 1_000_000;
            if expired_for > (settle as i128) * 1_000_000 && status == 200 {
                ctx.violate("expired-packet-not-evicted", format!("key k{k}: packet is {} s old (retention {} s, eviction interval {} s) and still served", age_us / 1_000_000, e.retention_s, e.interval_s));
                return;
            }
            // (every eviction event was checked against the cut-off at its own removal time above;
            // with a clock stepping backwards a legitimately evicted packet can look young again)
            let was_evicted = evicted.lock().unwrap().iter().any(|(d, _)| *d == format!("{} {}", z32(*k), ts));
            if age_us < e.retention_s as i128 * 1_000_000 - 2_000_000 && status != 200 && !was_evicted {
                ctx.violate("unexpired-packet-missing", format!("key k{k}: packet is {} s old (retention {} s) but no longer served", age_us / 1_000_000, e.retention_s));
                return;
            }
            if status != 200 {
                ctx.count("probe.packet_evicted");
            } else {
                ctx.count("probe.packet_retained");
            }
        }
        ctx.nontrivial();
        drop(server);
        yields(4).await;
    });
    // crash consistency of the evicting store: after a crash at any (sampled) point of this
    // publish/evict workload the store reopens, holds only published packets and its expiry
    // index matches them exactly; the last prefix is the final state without a crash
    if ctx.violated() {
        return;
    }
    let commits = commits.lock().unwrap().clone();
    let published = published.lock().unwrap().clone();
    if check_crash_images(ctx, &disk.log(), &commits, &published, false, case.seed) {
        ctx.count("probe.eviction_workload_crash_enumerated");
    }
}

fn real_vs_stub() -> Value {
    json!({"real": ["iroh_dns_server::store::{ZoneStore, ZoneCache}", "store::signed_packets::{Actor::run0, handle_message, evict_task_inner, serialize/deserialize}", "redb 4.1 (transactions, commit protocol, recovery)", "http::pkarr::{put, get} handlers", "dns::DnsHandler / NodeZoneHandler / hickory Catalog", "iroh_dns::pkarr::SignedPacket::{from_relay_payload, more_recent_than}"], "stub": ["disk (SimDisk implements redb::StorageBackend)", "OS threads of the store (actor and evict task run as local tasks of the simulated runtime: wiring of SignedPacketStore::open duplicated in verif_open)", "HTTP/UDP sockets (handlers called in process)", "wall clock (seam in Timestamp::now) and tokio clock", "DNS clients and publishers (hand-built packets and queries via simple-dns)"]})
}

macro_rules! prop {
    ($t:ident, $id:expr, $level:expr, $rule:expr, $quick:expr, $thorough:expr, $assume:expr) => {
        impl Property for $t {
            fn id(&self) -> &'static str {
                $id
            }
            fn level(&self) -> &'static str {
                $level
            }
            fn rule(&self) -> String {
                $rule.into()
            }
            fn assumptions(&self) -> Vec<String> {
                $assume
            }
            fn real_vs_stub(&self) -> Value {
                real_vs_stub()
            }
            fn runs(&self, tier: Tier) -> u64 {
                match tier {
                    Tier::Quick => $quick,
                    Tier::Thorough => $thorough,
                }
            }
            fn wall_cap_s(&self) -> u64 {
                60
            }
            fn generate(&self, seed: u64, tier: Tier) -> Value {
                fw::typed_generate(self, seed, tier)
            }
            fn execute(&self, case: &Value, ctx: &Ctx) {
                fw::typed_execute(self, case, ctx)
            }
            fn shrink(&self, case: &Value) -> Vec<Value> {
                fw::typed_shrink(self, case)
            }
        }
    };
}

prop!(C36, "C36", "exploration",
    "case = swarm config (batch size 1..8, batch time 1..1000 ms, zone cache capacity 1..4) + 2..7 publishes over 3 keys: records inside the signer's zone / under another key's zone / without key label, types TXT A AAAA SOA NS, path key != signer, corrupted signature, truncated body; after every publish all 3 keys x 4 names x 5 types are queried over DNS and pkarr GET; every published record carries a unique marker in its rdata; non-trivial = at least two accepted publishes; distinct = distinct history hash",
    6_000, 400_000, vec!["static SOA/NS records of the origin are not marked and not checked".into()]);
prop!(C37, "C37", "exploration",
    "case = swarm config + 2..9 publishes with timestamps drawn from a pool of two values (+0/+1 us) so equal timestamps (payload tie-break) are common, mostly for one key; after every publish the store's update report (store.upsert event) is compared with a sequential max-by-(timestamp, payload) model and all answers and GETs with the model's stored packet; non-trivial = at least two accepted publishes; distinct = distinct history hash",
    8_000, 400_000, vec!["'reports an update' is observed at the store's upsert acknowledgement (hook event), since the HTTP handler answers 204 either way".into()]);
prop!(C38, "C38", "exploration",
    "case = swarm config + a publisher task (1..4 publishes of increasing timestamp for one key) racing a resolver task (2..8 DNS lookups or pkarr GETs) with seeded gaps (none / yields / ms) and seeded yields at the two in-tree schedule points (after the store read in resolve, after the upsert acknowledgement in insert); non-trivial = some lookup was invoked before a later acknowledgement; distinct = distinct history hash",
    15_000, 1_000_000, vec!["single-threaded interleavings at await points plus the two named schedule points".into()]);
prop!(C39, "C39", "fault_enumeration",
    "two kinds of case. Crash: swarm config + 1..5 publishes with gaps; the live run logs every disk write/set_len/sync; afterwards a crash is simulated after EVERY prefix of that log (durable image + PRNG subset of unsynced writes, possibly torn at 512-byte sectors), the image is reopened through redb recovery and both tables are checked (exhaustive over crash points per run, runs sampled); optionally one EIO/ENOSPC is injected in the live run. Eviction: 1..5 packets with ages on both sides of the retention cut-off, wall-clock step mid-run; fresh republishes for the same keys land on the eviction ticks (between the evict task's snapshot and its expiry checks); every eviction event is checked against the cut-off at removal time and after a settle every expired packet must be gone and every unexpired one still served; the disk log of the eviction workload is crash-enumerated too (every prefix, or ~400 evenly spaced ones for long logs, plus the final state): the image must reopen, hold only published packets, and every stored packet must have its expiry-index row (rows without a packet are tolerated there — the store's own 'not found' branch removes them on the next scan — and committed-packet durability is not demanded, since eviction legitimately removes). non-trivial = >10 disk ops and >=1 commit, or any eviction case; distinct = distinct history hash",
    4_000, 300_000, vec!["lying disks (sync returns Ok without persisting) are not simulated".into(), "an image crashed before the database's very first commit may be unopenable and is skipped (counted)".into(), "evaluations counts runs; fault.crash_points counts the individual crash images checked".into()]);
