//! One module per claimed property.
use std::sync::Arc;

use crate::fw::Property;

pub mod c34;

pub fn all() -> Vec<Arc<dyn Property>> {
    vec![Arc::new(c34::C34)]
}

pub fn by_id(id: &str) -> Option<Arc<dyn Property>> {
    all().into_iter().find(|p| p.id() == id)
}
