//! One module per claimed property.
use std::sync::Arc;

use crate::fw::Property;

pub mod c01;
pub mod c03;
pub mod c040506;
pub mod c0708;
pub mod c09;
pub mod c14;
pub mod c15;
pub mod c17;
pub mod c18;
pub mod c19;
pub mod c2122;
pub mod c25;
pub mod c26;
pub mod c28;
pub mod c29;
pub mod c30;
pub mod c33;
pub mod c34;
pub mod c35;
pub mod c43;
pub mod dnssrv;
pub mod epprops;
pub mod relayreg;

pub fn all() -> Vec<Arc<dyn Property>> {
    vec![Arc::new(c01::C01), Arc::new(c03::C03), Arc::new(c040506::C04), Arc::new(c040506::C05), Arc::new(c040506::C06), Arc::new(c0708::C07), Arc::new(c0708::C08), Arc::new(c09::C09), Arc::new(c14::C14), Arc::new(c15::C15), Arc::new(c17::C17), Arc::new(c18::C18), Arc::new(c19::C19), Arc::new(c2122::C21), Arc::new(c2122::C22), Arc::new(c25::C25), Arc::new(c26::C26), Arc::new(c28::C28), Arc::new(c29::C29), Arc::new(c30::C30), Arc::new(c33::C33), Arc::new(c34::C34), Arc::new(c35::C35), Arc::new(dnssrv::C36), Arc::new(dnssrv::C37), Arc::new(dnssrv::C38), Arc::new(dnssrv::C39), Arc::new(c43::C43), Arc::new(epprops::C40), Arc::new(epprops::C41), Arc::new(epprops::C42)]
}

pub fn by_id(id: &str) -> Option<Arc<dyn Property>> {
    all().into_iter().find(|p| p.id() == id)
}
