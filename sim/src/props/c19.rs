//! C19 — outgoing datagrams go out the transport their address designates (custom-address and
//! per-endpoint-address clauses, and "no per-datagram failure is fatal"), on real `Endpoint`s whose
//! two custom transports are planes A and B of `SimNet`. The transport senders log every call and
//! inject transient I/O errors and would-block; the network logs every packet.
//!
//! The IP clause (which bound socket a destination/source pair selects) is a pure function of the
//! bind configuration and the address pair; it has no schedule, clock or fault in it and is not a
//! simulation target (see DESIGN.md §4 C19).

use std::{
    collections::BTreeSet,
    sync::{Arc, Mutex},
    time::Duration,
};

use iroh::{Endpoint, RelayMode, endpoint::presets};
use iroh_base::{EndpointAddr, SecretKey};
use iroh_dns::dns::DnsResolver;
use serde::{Deserialize, Serialize};
use serde_json::{Value, json};

use crate::fw::{
    self, Ctx, Property, Rng, Tier, Typed,
    rt::run_e1,
    simio::SimResolver,
    simnet::{NetCfg, SIM_TRANSPORT_ID, SIM_TRANSPORT_ID_B, SimNet, node_of},
};

const ALPN: &[u8] = b"sim/c19";

fn secret(k: u8) -> SecretKey {
    SecretKey::from_bytes(&[0x19 + k; 32])
}

#[derive(Clone, Debug, Serialize, Deserialize)]
pub struct Dial {
    /// server index 0 or 1 (server 2 exists and is never dialed)
    pub server: u8,
    /// which planes the lookup offers for that server: 1 = A, 2 = B, 3 = both
    pub planes: u8,
    pub bytes: u32,
    pub gap_ms: u64,
}

#[derive(Clone, Debug, Serialize, Deserialize)]
pub struct Case {
    pub net: NetCfg,
    pub dials: Vec<Dial>,
    pub concurrent: bool,
    /// virtual ms after which all injected faults stop
    #[serde(default)]
    pub faults_stop_ms: u64,
    pub seed: u64,
}

pub struct C19;

async fn ep(net: &SimNet, slot: u8, key: u8, serve: bool) -> Result<Endpoint, String> {
    let mut b = Endpoint::builder(presets::Minimal)
        .secret_key(secret(key))
        .relay_mode(RelayMode::Disabled)
        .clear_ip_transports()
        .portmapper_config(iroh::endpoint::PortmapperConfig::Disabled)
        .dns_resolver(DnsResolver::custom(SimResolver::new(vec![], vec![], vec![])))
        .add_custom_transport(net.transport_on(SIM_TRANSPORT_ID, slot))
        .add_custom_transport(net.transport_on(SIM_TRANSPORT_ID_B, slot))
        .address_lookup(net.lookup());
    if serve {
        b = b.alpns(vec![ALPN.to_vec()]);
    }
    let ep = b.bind().await.map_err(|e| format!("bind failed: {e:#}"))?;
    crate::fw::rt::settle_after_bind().await;
    Ok(ep)
}

impl Typed for C19 {
    type Case = Case;

    fn gen_case(&self, rng: &mut Rng, _tier: Tier) -> Case {
        let net = NetCfg {
            drop_pm: *rng.pick(&[0u32, 0, 0, 30]),
            dup_pm: *rng.pick(&[0u32, 0, 50]),
            reorder_pm: *rng.pick(&[0u32, 0, 100]),
            delay_max_ms: *rng.pick(&[0u64, 1, 20]),
            send_err_pm: *rng.pick(&[0u32, 0, 50, 200, 400]),
            send_pending_pm: *rng.pick(&[0u32, 0, 50, 200]),
            stuck_b: rng.chance(1, 4),
        };
        let dials = (0..rng.range(1, 3))
            // with plane B down every dial must be offered plane A, otherwise it cannot complete
            .map(|_| Dial { server: rng.range(0, 1) as u8, planes: if net.stuck_b { *rng.pick(&[1u8, 3, 3]) } else { rng.range(1, 3) as u8 }, bytes: *rng.pick(&[1u32, 100, 5_000, 60_000]), gap_ms: rng.range(0, 200) })
            .collect();
        Case { net, dials, concurrent: rng.coin(), faults_stop_ms: rng.edgy(100, 3000, &[100, 1000]), seed: rng.next_u64() }
    }

    fn exec_case(&self, case: &Case, ctx: &Ctx) {
        let case = case.clone();
        let ctx2 = ctx.clone();
        run_e1(case.seed, true, ctx, async move {
            let ctx = ctx2;
            let net = SimNet::new(case.seed, case.net.clone());
            // servers at slots 0,1,2 (keys 0,1,2); client at slot 3 (key 3)
            let mut servers = vec![];
            for i in 0..3u8 {
                match ep(&net, i, i, true).await {
                    Ok(e) => servers.push(e),
                    Err(e) => {
                        ctx.violate("harness-bind", e);
                        return;
                    }
                }
            }
            let client = match ep(&net, 3, 3, false).await {
                Ok(e) => e,
                Err(e) => {
                    ctx.violate("harness-bind", e);
                    return;
                }
            };
            // echo servers
            let mut tasks = vec![];
            for s in &servers {
                let s = s.clone();
                tasks.push(tokio::task::spawn_local(async move {
                    while let Some(inc) = s.accept().await {
                        tokio::task::spawn_local(async move {
                            let Ok(conn) = inc.await else { return };
                            while let Ok((mut tx, mut rx)) = conn.accept_bi().await {
                                if let Ok(data) = rx.read_to_end(1 << 20).await {
                                    let _ = tx.write_all(&data).await;
                                    let _ = tx.finish();
                                }
                            }
                        });
                    }
                }));
            }
            {
                let net = net.clone();
                let ms = case.faults_stop_ms;
                tokio::task::spawn_local(async move {
                    tokio::time::sleep(Duration::from_millis(ms)).await;
                    net.stop_faults();
                });
            }
            // the lookup offers, per dialed server, the chosen planes; the last dial of a server decides
            let results: Arc<Mutex<Vec<(usize, Result<(), String>)>>> = Default::default();
            let mut dial_tasks = vec![];
            for (i, d) in case.dials.iter().enumerate() {
                let mut nodes = vec![];
                if d.planes & 1 != 0 {
                    nodes.push(node_of(SIM_TRANSPORT_ID, d.server));
                }
                if d.planes & 2 != 0 {
                    nodes.push(node_of(SIM_TRANSPORT_ID_B, d.server));
                }
                net.route_multi(secret(d.server).public(), &nodes);
                tokio::time::sleep(Duration::from_millis(d.gap_ms)).await;
                ctx.ev(format!("dial {i} server{} planes={} bytes={}", d.server, d.planes, d.bytes));
                let client = client.clone();
                let d = d.clone();
                let results = results.clone();
                let fut = async move {
                    let payload: Vec<u8> = (0..d.bytes).map(|k| (k as u8) ^ (i as u8)).collect();
                    let r: Result<(), String> = async {
                        let conn = client.connect(EndpointAddr::new(secret(d.server).public()), ALPN).await.map_err(|e| format!("connect: {e:#}"))?;
                        let (mut tx, mut rx) = conn.open_bi().await.map_err(|e| format!("open_bi: {e:#}"))?;
                        tx.write_all(&payload).await.map_err(|e| format!("write: {e:#}"))?;
                        tx.finish().map_err(|e| format!("finish: {e:#}"))?;
                        let back = rx.read_to_end(1 << 20).await.map_err(|e| format!("read: {e:#}"))?;
                        if back != payload {
                            return Err("echo-mismatch".to_string());
                        }
                        conn.close(0u32.into(), b"done");
                        Ok(())
                    }
                    .await;
                    results.lock().unwrap().push((i, r));
                };
                if case.concurrent {
                    dial_tasks.push(tokio::task::spawn_local(fut));
                } else {
                    let _ = tokio::time::timeout(Duration::from_secs(120), fut).await;
                }
            }
            for t in dial_tasks {
                let _ = tokio::time::timeout(Duration::from_secs(120), t).await;
            }
            tokio::time::sleep(Duration::from_secs(2)).await;
            // ---- oracle ----
            // (1) every sender call went to the sender of the destination address's own transport
            let calls = net.sender_calls();
            for (stid, dtid, from, to, _) in &calls {
                if stid != dtid {
                    ctx.violate("datagram-handed-to-wrong-custom-transport", format!("a datagram for an address of transport {dtid:x} was handed to the sender of transport {stid:x} (node {from} -> {to})"));
                    return;
                }
            }
            // (2) the client's datagrams only went to nodes the lookup offered for a dialed endpoint at the time;
            //     the never-dialed server (slot 2) and nodes of planes not offered get nothing
            let mut offered: BTreeSet<u8> = BTreeSet::new();
            for d in &case.dials {
                if d.planes & 1 != 0 {
                    offered.insert(node_of(SIM_TRANSPORT_ID, d.server));
                }
                if d.planes & 2 != 0 {
                    offered.insert(node_of(SIM_TRANSPORT_ID_B, d.server));
                }
            }
            let client_nodes = [node_of(SIM_TRANSPORT_ID, 3), node_of(SIM_TRANSPORT_ID_B, 3)];
            for p in net.log() {
                if client_nodes.contains(&p.from) && !offered.contains(&p.to) {
                    ctx.violate("datagram-sent-to-address-of-another-endpoint", format!("the client sent a datagram to node {} which was never offered for any dialed endpoint (offered nodes {offered:?})", p.to));
                    return;
                }
                // plane discipline on the wire as well
                if (p.from & 0x80) != (p.to & 0x80) {
                    ctx.violate("datagram-crossed-transports", format!("node {} -> node {}", p.from, p.to));
                    return;
                }
            }
            // (3) transient sender failures are not fatal: with a loss-free network every transfer completes
            // recorded in dial order, not completion order: which of two overlapping transfers finishes first is
            // not part of the property (and is the one thing observed to vary between processes, see DESIGN 9.6)
            let mut res = results.lock().unwrap().clone();
            res.sort_by_key(|r| r.0);
            let errs = calls.iter().filter(|c| c.4 == "io-error").count() as u64;
            let pend = calls.iter().filter(|c| c.4 == "would-block").count() as u64;
            ctx.add("fault.sender_stuck_plane", calls.iter().filter(|c| c.4 == "stuck").count() as u64);
            ctx.add("fault.sender_io_error", errs);
            ctx.add("fault.sender_would_block", pend);
            ctx.add("fault.packets_dropped", net.log().iter().filter(|p| p.fate == "dropped").count() as u64);
            for (i, r) in &res {
                ctx.ev(format!("dial {i} -> {}", match r { Ok(()) => "echoed".to_string(), Err(e) => format!("failed ({})", e.split(':').next().unwrap_or("")) }));
            }
            // a sender failure looks like a lost datagram to QUIC. Faults stop after at most 3 virtual
            // seconds, far below QUIC's handshake and idle timeouts, so on a network that itself loses
            // nothing every transfer must complete (bounded liveness once faults stopped)
            if case.net.drop_pm == 0 {
                for (i, r) in &res {
                    if let Err(e) = r {
                        ctx.violate(
                            if errs + pend > 0 { "transfer-failed-after-transient-sender-failures" } else { "transfer-failed-without-faults" },
                            format!("dial {i}: {e} ({errs} injected sender errors, {pend} would-blocks until {} ms, no packet loss)", case.faults_stop_ms),
                        );
                        return;
                    }
                }
                if res.len() != case.dials.len() {
                    ctx.violate(
                        if errs + pend > 0 { "transfer-stuck-after-transient-sender-failures" } else { "transfer-did-not-finish-without-faults" },
                        format!("{} of {} transfers finished within 120 virtual seconds ({errs} injected sender errors, {pend} would-blocks until {} ms, no packet loss)", res.len(), case.dials.len(), case.faults_stop_ms),
                    );
                    return;
                }
            }
            if res.iter().any(|(_, r)| matches!(r, Err(e) if e == "echo-mismatch")) {
                ctx.violate("echo-mismatch", "a transfer echoed different bytes".to_string());
                return;
            }
            // liveness after the last fault: a fresh transfer to every dialed server completes
            let dialed: BTreeSet<u8> = case.dials.iter().map(|d| d.server).collect();
            for sidx in dialed {
                let fresh = async {
                    let conn = client.connect(EndpointAddr::new(secret(sidx).public()), ALPN).await.map_err(|e| format!("connect: {e:#}"))?;
                    let (mut tx, mut rx) = conn.open_bi().await.map_err(|e| format!("open_bi: {e:#}"))?;
                    tx.write_all(b"after-faults").await.map_err(|e| format!("write: {e:#}"))?;
                    tx.finish().map_err(|e| format!("finish: {e:#}"))?;
                    let back = rx.read_to_end(64).await.map_err(|e| format!("read: {e:#}"))?;
                    conn.close(0u32.into(), b"done");
                    if back == b"after-faults" { Ok(()) } else { Err("echo-mismatch".to_string()) }
                };
                match tokio::time::timeout(Duration::from_secs(60), fresh).await {
                    Ok(Ok(())) => ctx.count("probe.fresh_transfer_after_faults"),
                    other => {
                        ctx.violate(
                            "no-transfer-possible-after-faults-stopped",
                            format!("after {errs} injected sender errors and {pend} would-blocks (stopped at {} ms) a fresh transfer to server{sidx} on a fault-free network failed: {other:?}", case.faults_stop_ms),
                        );
                        return;
                    }
                }
            }
            if errs + pend > 0 && res.iter().any(|(_, r)| r.is_ok()) {
                ctx.nontrivial();
            }
            for t in tasks {
                t.abort();
            }
            let _ = tokio::time::timeout(Duration::from_secs(30), client.close()).await;
            for s in servers {
                let _ = tokio::time::timeout(Duration::from_secs(30), s.close()).await;
            }
        });
    }

    fn shrink_case(&self, case: &Case) -> Vec<Case> {
        let mut out = vec![];
        for d in fw::shrink_vec(&case.dials) {
            if d.is_empty() {
                continue;
            }
            let mut c = case.clone();
            c.dials = d;
            out.push(c);
        }
        for f in 0..4 {
            let mut c = case.clone();
            match f {
                0 if c.net.send_err_pm > 0 => c.net.send_err_pm = 0,
                1 if c.net.send_pending_pm > 0 => c.net.send_pending_pm = 0,
                2 if c.net.dup_pm + c.net.reorder_pm > 0 => {
                    c.net.dup_pm = 0;
                    c.net.reorder_pm = 0
                }
                3 if c.net.delay_max_ms > 0 => c.net.delay_max_ms = 0,
                _ => continue,
            }
            out.push(c);
        }
        out
    }
}

impl Property for C19 {
    fn id(&self) -> &'static str {
        "C19"
    }
    fn rule(&self) -> String {
        "case = (network config incl. per-mille rates of transient sender I/O errors and would-block, 1..3 dials of two of three servers with the lookup offering plane A, plane B or both, echo transfers of 1 B..60 kB, sequential or concurrent); every endpoint binds two custom transports (two SimNet planes); non-trivial = sender faults fired and a transfer still completed; distinct = distinct history hash".into()
    }
    fn assumptions(&self) -> Vec<String> {
        vec![
            "PARTIAL: only the custom-address, per-endpoint-address and failure-is-not-fatal clauses are decided here. The IP clause (bound-socket choice by source, prefix length, scope and default route) is a pure function of the bind configuration and one address pair with no schedule, clock or fault in it; it is not a simulation target and is not claimed".into(),
            "the relay-address clause is exercised by the relay transport checks (C17) on the receive side only".into(),
            "ring's TLS randomness is not seeded".into(),
        ]
    }
    fn real_vs_stub(&self) -> Value {
        json!({"real": ["iroh::Endpoint, socket actor, RemoteStateActor path handling and SendDatagram fan-out", "socket::transports::{Sender::poll_send, TransportsSender::poll_send} dispatch by mapped address", "mapped address maps", "noq QUIC"], "stub": ["the two custom transports (SimNet planes) incl. their senders' transient failures", "address lookup, DNS, clock"]})
    }
    fn runs(&self, tier: Tier) -> u64 {
        match tier {
            Tier::Quick => 3_000,
            Tier::Thorough => 200_000,
        }
    }
    fn wall_cap_s(&self) -> u64 {
        120
    }
    fn generate(&self, seed: u64, tier: Tier) -> Value {
        fw::typed_generate(self, seed, tier)
    }
    fn execute(&self, case: &Value, ctx: &Ctx) {
        fw::typed_execute(self, case, ctx)
    }
    fn shrink(&self, case: &Value) -> Vec<Value> {
        fw::typed_shrink(self, case)
    }
}
